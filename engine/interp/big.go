package interp

import (
	"fmt"
	"math/big"

	"verif/engine/smt"
)

// bigZ is the mode-Z model of a math/big.Int: it lives in the `abs` field of
// the interpreted big.Int struct and carries an SMT Int term.
type bigZ struct {
	t *smt.Term
}

// declined is returned by an intrinsic that wants the real body to run.
type declined struct{}

func (m *Machine) bigStruct(p value) structure {
	pp, ok := p.(*value)
	if !ok || pp == nil {
		panic(runtimeErr{"invalid memory address or nil pointer dereference (nil *big.Int)"})
	}
	return (*pp).(structure)
}

// bigKind: 0 = concrete words, 1 = bigZ, 2 = symbolic words
func (m *Machine) bigKind(p value) int {
	st := m.bigStruct(p)
	switch a := st[1].(type) {
	case *bigZ:
		return 1
	case sliceV:
		if !st[0].(*smt.Term).IsConst() {
			return 2
		}
		for _, w := range a.elems() {
			if !w.(*smt.Term).IsConst() {
				return 2
			}
		}
		return 0
	}
	panic(fmt.Sprintf("big.Int abs field %T", st[1]))
}

func (m *Machine) bigTerm(p value) *smt.Term {
	c := m.c
	st := m.bigStruct(p)
	switch a := st[1].(type) {
	case *bigZ:
		return a.t
	case sliceV:
		neg := st[0].(*smt.Term)
		conc := neg.IsConst()
		for _, w := range a.elems() {
			if !w.(*smt.Term).IsConst() {
				conc = false
			}
		}
		if conc {
			v := new(big.Int)
			for i := a.n - 1; i >= 0; i-- {
				v.Lsh(v, 64)
				v.Or(v, new(big.Int).SetUint64(a.a[i].(*smt.Term).V))
			}
			if neg.V == 1 {
				v.Neg(v)
			}
			return c.IntConst(v)
		}
		t := c.IntConst64(0)
		for i := a.n - 1; i >= 0; i-- {
			t = c.IntBin(smt.OIntAdd, c.IntBin(smt.OIntMul, t, c.IntConst(new(big.Int).Lsh(big.NewInt(1), 64))), c.BV2Nat(a.a[i].(*smt.Term)))
		}
		return c.Ite(neg, c.IntNeg(t), t)
	}
	panic("bigTerm")
}

// bigSet stores an Int term into the big.Int at p (concrete terms are stored as real words).
func (m *Machine) bigSet(p value, t *smt.Term) {
	st := m.bigStruct(p)
	if t.IsConst() {
		v := t.Big
		st[0] = m.c.Bool(v.Sign() < 0)
		ws := new(big.Int).Abs(v).Bits()
		a := make([]value, len(ws))
		for i, w := range ws {
			a[i] = m.c.BVConst(64, uint64(w))
		}
		if len(a) == 0 {
			st[1] = nilSlice
		} else {
			st[1] = sliceV{a: a, n: len(a)}
		}
		return
	}
	st[0] = m.c.False
	st[1] = &bigZ{t: t}
}

func (m *Machine) newBigZVar(name string) value {
	n := m.freshName(name)
	var t *smt.Term
	if m.concrete {
		if s, ok := m.replayVec[n]; ok {
			v, _ := new(big.Int).SetString(s, 10)
			if v == nil {
				v = new(big.Int)
			}
			t = m.c.IntConst(v)
		} else {
			u, _ := m.replayValue(n, 64)
			t = m.c.IntConst(new(big.Int).SetUint64(u % 1000003))
		}
		m.inputs = append(m.inputs, inputRec{Name: n, Kind: "int", Term: t})
	} else {
		t = m.c.Var(n, smt.IntSort)
		m.inputs = append(m.inputs, inputRec{Name: n, Kind: "int", Term: t})
	}
	var v value = structure{m.c.False, nilSlice}
	p := &v
	m.bigSet(p, t)
	return p
}

// useZ decides whether the Z model handles a call with these big operands.
func (m *Machine) useZ(ps ...value) bool {
	anyZ, anySymReal := false, false
	for _, p := range ps {
		switch m.bigKind(p) {
		case 1:
			anyZ = true
		case 2:
			anySymReal = true
		}
	}
	if anySymReal && !anyZ {
		return false
	}
	return true
}

func registerBigIntrinsics(c func(string, intrinsicImpl)) {
	bin := func(f func(m *Machine, x, y *smt.Term) *smt.Term) intrinsicImpl {
		return func(m *Machine, fr *frame, args []value) value {
			if !m.useZ(args[1], args[2]) {
				return declined{}
			}
			x, y := m.bigTerm(args[1]), m.bigTerm(args[2])
			m.bigSet(args[0], f(m, x, y))
			return args[0]
		}
	}
	c("(*math/big.Int).Add", bin(func(m *Machine, x, y *smt.Term) *smt.Term { return m.c.IntBin(smt.OIntAdd, x, y) }))
	c("(*math/big.Int).Sub", bin(func(m *Machine, x, y *smt.Term) *smt.Term { return m.c.IntBin(smt.OIntSub, x, y) }))
	c("(*math/big.Int).Mul", bin(func(m *Machine, x, y *smt.Term) *smt.Term { return m.c.IntBin(smt.OIntMul, x, y) }))
	divz := func(m *Machine, y *smt.Term) {
		if !m.branch(m.c.Ne(y, m.c.IntConst64(0))) {
			panic(targetPanic{m.errString("division by zero")})
		}
	}
	c("(*math/big.Int).Div", bin(func(m *Machine, x, y *smt.Term) *smt.Term {
		divz(m, y)
		return m.c.IntBin(smt.OIntDiv, x, y)
	}))
	c("(*math/big.Int).Mod", bin(func(m *Machine, x, y *smt.Term) *smt.Term {
		divz(m, y)
		return m.c.IntBin(smt.OIntMod, x, y)
	}))
	tquo := func(m *Machine, x, y *smt.Term) *smt.Term {
		c := m.c
		zero := c.IntConst64(0)
		q := c.IntBin(smt.OIntDiv, c.IntAbs(x), c.IntAbs(y))
		same := c.Eq(c.IntCmp(smt.OIntLt, x, zero), c.IntCmp(smt.OIntLt, y, zero))
		return c.Ite(same, q, c.IntNeg(q))
	}
	c("(*math/big.Int).Quo", bin(func(m *Machine, x, y *smt.Term) *smt.Term {
		divz(m, y)
		return tquo(m, x, y)
	}))
	c("(*math/big.Int).Rem", bin(func(m *Machine, x, y *smt.Term) *smt.Term {
		divz(m, y)
		return m.c.IntBin(smt.OIntSub, x, m.c.IntBin(smt.OIntMul, y, tquo(m, x, y)))
	}))
	c("(*math/big.Int).QuoRem", func(m *Machine, fr *frame, args []value) value {
		if !m.useZ(args[1], args[2]) {
			return declined{}
		}
		x, y := m.bigTerm(args[1]), m.bigTerm(args[2])
		divz(m, y)
		q := tquo(m, x, y)
		r := m.c.IntBin(smt.OIntSub, x, m.c.IntBin(smt.OIntMul, y, q))
		m.bigSet(args[0], q)
		m.bigSet(args[3], r)
		return tuple{args[0], args[3]}
	})
	c("(*math/big.Int).DivMod", func(m *Machine, fr *frame, args []value) value {
		if !m.useZ(args[1], args[2]) {
			return declined{}
		}
		x, y := m.bigTerm(args[1]), m.bigTerm(args[2])
		divz(m, y)
		m.bigSet(args[0], m.c.IntBin(smt.OIntDiv, x, y))
		m.bigSet(args[3], m.c.IntBin(smt.OIntMod, x, y))
		return tuple{args[0], args[3]}
	})
	un := func(f func(m *Machine, x *smt.Term) *smt.Term) intrinsicImpl {
		return func(m *Machine, fr *frame, args []value) value {
			if !m.useZ(args[1]) {
				return declined{}
			}
			m.bigSet(args[0], f(m, m.bigTerm(args[1])))
			return args[0]
		}
	}
	c("(*math/big.Int).Neg", un(func(m *Machine, x *smt.Term) *smt.Term { return m.c.IntNeg(x) }))
	c("(*math/big.Int).Abs", un(func(m *Machine, x *smt.Term) *smt.Term { return m.c.IntAbs(x) }))
	c("(*math/big.Int).Set", un(func(m *Machine, x *smt.Term) *smt.Term { return x }))
	c("(*math/big.Int).Cmp", func(m *Machine, fr *frame, args []value) value {
		if !m.useZ(args[0], args[1]) {
			return declined{}
		}
		x, y := m.bigTerm(args[0]), m.bigTerm(args[1])
		cc := m.c
		return cc.Ite(cc.IntCmp(smt.OIntLt, x, y), cc.BVConst(64, ^uint64(0)), cc.Ite(cc.Eq(x, y), cc.BVConst(64, 0), cc.BVConst(64, 1)))
	})
	c("(*math/big.Int).CmpAbs", func(m *Machine, fr *frame, args []value) value {
		if !m.useZ(args[0], args[1]) {
			return declined{}
		}
		cc := m.c
		x, y := cc.IntAbs(m.bigTerm(args[0])), cc.IntAbs(m.bigTerm(args[1]))
		return cc.Ite(cc.IntCmp(smt.OIntLt, x, y), cc.BVConst(64, ^uint64(0)), cc.Ite(cc.Eq(x, y), cc.BVConst(64, 0), cc.BVConst(64, 1)))
	})
	c("(*math/big.Int).Sign", func(m *Machine, fr *frame, args []value) value {
		if m.bigKind(args[0]) != 1 {
			return declined{}
		}
		cc := m.c
		x := m.bigTerm(args[0])
		z := cc.IntConst64(0)
		return cc.Ite(cc.IntCmp(smt.OIntLt, x, z), cc.BVConst(64, ^uint64(0)), cc.Ite(cc.Eq(x, z), cc.BVConst(64, 0), cc.BVConst(64, 1)))
	})
	c("(*math/big.Int).IsInt64", func(m *Machine, fr *frame, args []value) value {
		if m.bigKind(args[0]) != 1 {
			return declined{}
		}
		cc := m.c
		x := m.bigTerm(args[0])
		lo := cc.IntConst(new(big.Int).Neg(new(big.Int).Lsh(big.NewInt(1), 63)))
		hi := cc.IntConst(new(big.Int).Lsh(big.NewInt(1), 63))
		return cc.And(cc.IntCmp(smt.OIntLe, lo, x), cc.IntCmp(smt.OIntLt, x, hi))
	})
	c("(*math/big.Int).IsUint64", func(m *Machine, fr *frame, args []value) value {
		if m.bigKind(args[0]) != 1 {
			return declined{}
		}
		cc := m.c
		x := m.bigTerm(args[0])
		hi := cc.IntConst(new(big.Int).Lsh(big.NewInt(1), 64))
		return cc.And(cc.IntCmp(smt.OIntLe, cc.IntConst64(0), x), cc.IntCmp(smt.OIntLt, x, hi))
	})
	lo64 := func(m *Machine, fr *frame, args []value) value {
		if m.bigKind(args[0]) != 1 {
			return declined{}
		}
		// low 64 bits of |x|, negated if x<0 (as the real code does)
		cc := m.c
		x := m.bigTerm(args[0])
		return cc.Int2BV(x, 64)
	}
	c("(*math/big.Int).Int64", lo64)
	c("(*math/big.Int).Uint64", lo64)
	c("(*math/big.Int).SetInt64", func(m *Machine, fr *frame, args []value) value {
		x := args[1].(*smt.Term)
		if x.IsConst() && m.bigKind(args[0]) != 1 {
			return declined{}
		}
		m.bigSet(args[0], m.c.BV2IntSigned(x))
		return args[0]
	})
	c("(*math/big.Int).SetUint64", func(m *Machine, fr *frame, args []value) value {
		x := args[1].(*smt.Term)
		if x.IsConst() && m.bigKind(args[0]) != 1 {
			return declined{}
		}
		m.bigSet(args[0], m.c.BV2Nat(x))
		return args[0]
	})
	c("math/big.NewInt", func(m *Machine, fr *frame, args []value) value {
		x := args[0].(*smt.Term)
		if x.IsConst() || !m.env.BigNewIntZ {
			return declined{}
		}
		var v value = structure{m.c.False, nilSlice}
		p := &v
		m.bigSet(p, m.c.BV2IntSigned(x))
		return p
	})
	// Methods that need the bits: only constants are handled in mode Z.
	constOnly := func(name string) {
		c(name, func(m *Machine, fr *frame, args []value) value {
			if m.bigKind(args[0]) == 1 {
				panic(pathAbort{"unsupported", name + " on a symbolic mode-Z big.Int"})
			}
			return declined{}
		})
	}
	for _, n := range []string{"Bytes", "BitLen", "Bit", "Bits", "FillBytes", "TrailingZeroBits", "Text", "Append", "Format", "MarshalText", "MarshalJSON", "GobEncode", "ProbablyPrime"} {
		constOnly("(*math/big.Int)." + n)
	}
	c("(*math/big.Int).String", func(m *Machine, fr *frame, args []value) value {
		if p, ok := args[0].(*value); ok && p != nil && m.bigKind(args[0]) == 1 {
			return strV{s: "<bigZ>"}
		}
		return declined{}
	})
	// methods with a destination and big operands that we do not model symbolically
	for _, n := range []string{"Exp", "GCD", "ModInverse", "Sqrt", "Lsh", "Rsh", "And", "Or", "Xor", "Not", "AndNot", "SetBit", "ModSqrt"} {
		name := "(*math/big.Int)." + n
		c(name, func(m *Machine, fr *frame, args []value) value {
			for _, a := range args {
				if p, ok := a.(*value); ok && p != nil {
					if st, ok := (*p).(structure); ok && len(st) == 2 {
						if _, isZ := st[1].(*bigZ); isZ {
							panic(pathAbort{"unsupported", name + " on a symbolic mode-Z big.Int"})
						}
					}
				}
			}
			return declined{}
		})
	}
}

package interp

import (
	"crypto/sha256"
	"fmt"

	"verif/engine/smt"
)

// Model of goloop/common/crypto keys and signatures (no elliptic-curve
// arithmetic is executed).  Freshly generated key pairs are distinct opaque
// objects with deterministic, pairwise distinct serialisations; a signature
// is an uninterpreted function of (key, hash); recovery inverts it for
// signatures built by the model and yields an "unknown" key otherwise.

const cryptoPkg = "github.com/icon-project/goloop/common/crypto"

type keyObj struct {
	id int
}

type sigModel struct {
	key  *keyObj
	hash []*smt.Term
}

func (m *Machine) keyOf(p value, what string) *keyObj {
	pp, ok := p.(*value)
	if !ok || pp == nil {
		panic(runtimeErr{"invalid memory address or nil pointer dereference (nil key in " + what + ")"})
	}
	st := (*pp).(structure)
	k, ok := st[0].(*keyObj)
	if !ok {
		panic(pathAbort{"unsupported", what + ": key not created by the key model"})
	}
	return k
}

func (m *Machine) newKeyPtr(k *keyObj) value {
	var v value = structure{k}
	return &v
}

func keyBytes(id int, n int) []byte {
	var out []byte
	seed := sha256.Sum256([]byte(fmt.Sprintf("verif-model-key-%d", id)))
	s := seed[:]
	for len(out) < n {
		out = append(out, s...)
		h := sha256.Sum256(s)
		s = h[:]
	}
	return out[:n]
}

func registerCryptoIntrinsics(c func(string, intrinsicImpl)) {
	c(cryptoPkg+".GenerateKeyPair", func(m *Machine, fr *frame, args []value) value {
		m.keySeq++
		k := &keyObj{id: m.keySeq}
		return tuple{m.newKeyPtr(k), m.newKeyPtr(k)}
	})
	c("(*"+cryptoPkg+".PrivateKey).PublicKey", func(m *Machine, fr *frame, args []value) value {
		return m.newKeyPtr(m.keyOf(args[0], "PrivateKey.PublicKey"))
	})
	c("(*"+cryptoPkg+".PublicKey).SerializeUncompressed", func(m *Machine, fr *frame, args []value) value {
		k := m.keyOf(args[0], "SerializeUncompressed")
		return m.constBytes(append([]byte{4}, keyBytes(k.id, 64)...))
	})
	c("(*"+cryptoPkg+".PublicKey).SerializeCompressed", func(m *Machine, fr *frame, args []value) value {
		k := m.keyOf(args[0], "SerializeCompressed")
		return m.constBytes(append([]byte{2}, keyBytes(k.id, 32)...))
	})
	c("(*"+cryptoPkg+".PublicKey).Equal", func(m *Machine, fr *frame, args []value) value {
		return m.c.Bool(m.keyOf(args[0], "Equal").id == m.keyOf(args[1], "Equal").id)
	})
	c("(*"+cryptoPkg+".PublicKey).String", func(m *Machine, fr *frame, args []value) value {
		return strV{s: fmt.Sprintf("<model key %d>", m.keyOf(args[0], "String").id)}
	})
}

package interp

import (
	"crypto/sha256"
	"fmt"

	"verif/engine/smt"
)

// Model of goloop/common/crypto keys and signatures (no elliptic-curve
// arithmetic is executed).  Freshly generated key pairs are distinct opaque
// objects with deterministic, pairwise distinct serialisations; a signature
// is an uninterpreted function of (key, hash); recovery inverts it for
// signatures built by the model and yields an "unknown" key otherwise.

const cryptoPkg = "github.com/icon-project/goloop/common/crypto"

type keyObj struct {
	id int
}

// sigApp records one signature produced by the model.
type sigApp struct {
	key  *keyObj
	hash []*smt.Term
	v    *smt.Term   // recovery byte (27/28)
	rs   []*smt.Term // 64 bytes
}

func (m *Machine) keyOf(p value, what string) *keyObj {
	pp, ok := p.(*value)
	if !ok || pp == nil {
		panic(runtimeErr{"invalid memory address or nil pointer dereference (nil key in " + what + ")"})
	}
	st := (*pp).(structure)
	k, ok := st[0].(*keyObj)
	if !ok {
		panic(pathAbort{"unsupported", what + ": key not created by the key model"})
	}
	return k
}

func (m *Machine) newKeyPtr(k *keyObj) value {
	var v value = structure{k}
	return &v
}

func keyBytes(id int, n int) []byte {
	var out []byte
	seed := sha256.Sum256([]byte(fmt.Sprintf("verif-model-key-%d", id)))
	s := seed[:]
	for len(out) < n {
		out = append(out, s...)
		h := sha256.Sum256(s)
		s = h[:]
	}
	return out[:n]
}

func registerCryptoIntrinsics(c func(string, intrinsicImpl)) {
	c(cryptoPkg+".GenerateKeyPair", func(m *Machine, fr *frame, args []value) value {
		m.keySeq++
		k := &keyObj{id: m.keySeq}
		return tuple{m.newKeyPtr(k), m.newKeyPtr(k)}
	})
	c("(*"+cryptoPkg+".PrivateKey).PublicKey", func(m *Machine, fr *frame, args []value) value {
		return m.newKeyPtr(m.keyOf(args[0], "PrivateKey.PublicKey"))
	})
	c("(*"+cryptoPkg+".PublicKey).SerializeUncompressed", func(m *Machine, fr *frame, args []value) value {
		k := m.keyOf(args[0], "SerializeUncompressed")
		return m.constBytes(append([]byte{4}, keyBytes(k.id, 64)...))
	})
	c("(*"+cryptoPkg+".PublicKey).SerializeCompressed", func(m *Machine, fr *frame, args []value) value {
		k := m.keyOf(args[0], "SerializeCompressed")
		return m.constBytes(append([]byte{2}, keyBytes(k.id, 32)...))
	})
	c("(*"+cryptoPkg+".PublicKey).Equal", func(m *Machine, fr *frame, args []value) value {
		return m.c.Bool(m.keyOf(args[0], "Equal").id == m.keyOf(args[1], "Equal").id)
	})
	// ---- ECDSA (secp256k1) sign / recover / verify ----
	// A signature is [27+parity | S(key, hash)] with S an uninterpreted,
	// collision-free function of (key identity, hash); recovery and
	// verification succeed exactly for (signature, hash) pairs the model
	// produced, recovery of anything else yields an unrelated key.
	const ecdsaPkg = "github.com/decred/dcrd/dcrec/secp256k1/v4/ecdsa"
	c(ecdsaPkg+".SignCompact", func(m *Machine, fr *frame, args []value) value {
		k, ok := args[0].(*keyObj)
		if !ok {
			panic(pathAbort{"unsupported", "ecdsa.SignCompact: key not created by the key model"})
		}
		hash := m.bytesOf(args[1])
		in := append(m.bytesOf(m.constBytes(keyBytes(k.id, 32))), hash...)
		rs := m.hashModel("ecdsasig", 64, in, func(b []byte) []byte {
			h1 := sha256.Sum256(append([]byte("verif-model-sig-1"), b...))
			h2 := sha256.Sum256(append([]byte("verif-model-sig-2"), b...))
			return append(h1[:], h2[:]...)
		})
		v := m.c.BVConst(8, uint64(27+k.id%2))
		apps, _ := m.extra["sigApps"].([]sigApp)
		if m.extra == nil {
			m.extra = map[string]interface{}{}
		}
		m.extra["sigApps"] = append(apps, sigApp{key: k, hash: hash, v: v, rs: rs})
		return byteSlice(append([]*smt.Term{v}, rs...))
	})
	findSig := func(m *Machine, sig []*smt.Term, hash []*smt.Term) *keyObj {
		apps, _ := m.extra["sigApps"].([]sigApp)
		for _, a := range apps {
			if len(sig) != 65 || len(hash) != len(a.hash) {
				continue
			}
			cond := m.c.And(m.c.Eq(sig[0], a.v), m.c.And(m.seqEq(sig[1:], a.rs), m.seqEq(hash, a.hash)))
			if m.branch(cond) {
				return a.key
			}
		}
		return nil
	}
	c(ecdsaPkg+".RecoverCompact", func(m *Machine, fr *frame, args []value) value {
		sig, hash := m.bytesOf(args[0]), m.bytesOf(args[1])
		k := findSig(m, sig, hash)
		if k == nil {
			// not a signature of this hash made by a model key: some unrelated key
			n, _ := m.extra["unknownKeys"].(int)
			if m.extra == nil {
				m.extra = map[string]interface{}{}
			}
			m.extra["unknownKeys"] = n + 1
			k = &keyObj{id: 100000 + n}
		}
		return tuple{k, m.c.False, iface{}}
	})
	c("(*"+cryptoPkg+".Signature).Verify", func(m *Machine, fr *frame, args []value) value {
		sp := args[0].(*value)
		if sp == nil {
			panic(runtimeErr{"invalid memory address or nil pointer dereference (nil *Signature)"})
		}
		sb := m.bytesOf((*sp).(structure)[0])
		msg := m.bytesOf(args[1])
		pp, ok := args[2].(*value)
		if len(msg) == 0 || len(msg) > 32 || !ok || pp == nil || len(sb) < 64 {
			return m.c.False
		}
		pub := m.keyOf(args[2], "Signature.Verify")
		apps, _ := m.extra["sigApps"].([]sigApp)
		rs := sb
		if len(sb) == 65 {
			rs = sb[1:]
		}
		for _, a := range apps {
			if a.key.id != pub.id || len(msg) != len(a.hash) || len(rs) != 64 {
				continue
			}
			if m.branch(m.c.And(m.seqEq(rs, a.rs), m.seqEq(msg, a.hash))) {
				return m.c.True
			}
		}
		return m.c.False
	})
	c(cryptoPkg+".ParsePublicKey", func(m *Machine, fr *frame, args []value) value {
		bs := m.bytesOf(args[0])
		cb, ok := allConst(bs)
		if !ok {
			panic(pathAbort{"unsupported", "crypto.ParsePublicKey of symbolic bytes"})
		}
		n, _ := m.extra["unknownKeys"].(int)
		ids := make([]int, 0, m.keySeq+n)
		for i := 1; i <= m.keySeq; i++ {
			ids = append(ids, i)
		}
		for i := 0; i < n; i++ {
			ids = append(ids, 100000+i)
		}
		for _, id := range ids {
			if (len(cb) == 33 && cb[0] == 2 && string(cb[1:]) == string(keyBytes(id, 32))) ||
				(len(cb) == 65 && cb[0] == 4 && string(cb[1:]) == string(keyBytes(id, 64))) {
				return tuple{m.newKeyPtr(&keyObj{id: id}), iface{}}
			}
		}
		return tuple{(*value)(nil), m.errString("model: not the serialisation of a model key")}
	})
	c("(*"+cryptoPkg+".PublicKey).String", func(m *Machine, fr *frame, args []value) value {
		return strV{s: fmt.Sprintf("<model key %d>", m.keyOf(args[0], "String").id)}
	})
}

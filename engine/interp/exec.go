package interp

import (
	"fmt"
	"go/token"
	"go/types"
	"os"
	"strings"

	"golang.org/x/tools/go/ssa"

	"verif/engine/smt"
)

// Limits of one path (hitting one makes the path inconclusive).
type Limits struct {
	MaxSteps     int
	MaxDecisions int
	ConcretCap   int
}

// Machine is the per-worker interpreter state.  A fresh smt.Ctx and fresh
// globals are used for every path.
type Machine struct {
	prog   *ssa.Program
	env    *Env
	c      *smt.Ctx
	solver *smt.Solver
	lim    Limits

	globals map[*ssa.Global]*value
	inited  map[*ssa.Package]int

	pc       []*smt.Term
	asserted int

	prefix    []int
	decisions []int
	pending   [][]int

	steps     int
	varCount  map[string]int
	inputs    []inputRec // declared symbolic inputs / concrete choices in order
	path      *PathResult
	depth     int
	trace     bool
	inInit    int
	params    map[string]int64
	hashApps  map[string][]hashApp
	replayVec map[string]string // concrete mode (selftest): values for inputs
	concrete  bool
	rng       uint64
	extra     map[string]interface{}
	clock     int64
	timers    []value
	pdoms     map[*ssa.Function]*pdomInfo
	foldable  map[*ssa.BasicBlock]bool
	spec      int
	folds     int
	rtypes    map[string]*rtypeV
	rtypeT    types.Type
	keySeq    int
	symLogs   map[*value][]logEntry
	hashOrder [][2]interface{}
}

type inputRec struct {
	Name string
	Kind string // bv8.. | bool | int | choice
	Term *smt.Term
	Conc int64
}

type deferred struct {
	fn    value
	args  []value
	instr *ssa.Defer
	tail  *deferred
}

type frame struct {
	m                *Machine
	caller           *frame
	fn               *ssa.Function
	block, prevBlock *ssa.BasicBlock
	env              map[ssa.Value]value
	locals           []value
	defers           *deferred
	result           value
	panicking        bool
	panic            interface{}
	phitemps         []value
	callInstr        ssa.Instruction
	cur              ssa.Instruction
	skipPhis         bool
}

func (fr *frame) get(key ssa.Value) value {
	switch key := key.(type) {
	case nil:
		return nil
	case *ssa.Function, *ssa.Builtin:
		return key
	case *ssa.Const:
		return fr.m.constValue(key)
	case *ssa.Global:
		return fr.m.globalAddr(key)
	}
	if r, ok := fr.env[key]; ok {
		return r
	}
	panic(fmt.Sprintf("get: no value for %T: %v in %s", key, key.Name(), fr.fn))
}

func (m *Machine) globalAddr(g *ssa.Global) *value {
	if p, ok := m.globals[g]; ok {
		return p
	}
	m.ensureInit(g.Pkg)
	if p, ok := m.globals[g]; ok {
		return p
	}
	// global of a package whose init did not create it (should not happen)
	p := new(value)
	*p = m.zero(deref(g.Type()))
	m.globals[g] = p
	return p
}

// ensureInit lazily runs the package initializer (concretely) on first touch.
func (m *Machine) ensureInit(pkg *ssa.Package) {
	if pkg == nil {
		return
	}
	if m.inited[pkg] != 0 {
		return
	}
	m.inited[pkg] = 1
	// allocate all globals of the package
	for _, mem := range pkg.Members {
		if g, ok := mem.(*ssa.Global); ok {
			if _, ok := m.globals[g]; !ok {
				p := new(value)
				*p = m.zero(deref(g.Type()))
				m.globals[g] = p
			}
		}
	}
	init := pkg.Func("init")
	if init == nil || init.Blocks == nil {
		m.inited[pkg] = 2
		return
	}
	if m.env.SkipInit[pkg.Pkg.Path()] || defaultSkipInit(pkg.Pkg.Path()) {
		m.inited[pkg] = 2
		if m.trace {
			fmt.Fprintf(os.Stderr, "skip init of %s\n", pkg.Pkg.Path())
		}
		if pkg.Pkg.Path() == "os" {
			// the sentinel errors are aliases of io/fs's
			if fsp := m.prog.ImportedPackage("io/fs"); fsp != nil {
				for _, n := range []string{"ErrInvalid", "ErrPermission", "ErrExist", "ErrNotExist", "ErrClosed"} {
					og, _ := pkg.Members[n].(*ssa.Global)
					fg, _ := fsp.Members[n].(*ssa.Global)
					if og != nil && fg != nil {
						*m.globals[og] = *m.globalAddr(fg)
					}
				}
			}
		}
		return
	}
	m.inInit++
	defer m.postInit(pkg)
	defer func() {
		m.inInit--
		if r := recover(); r != nil {
			if pa, ok := r.(pathAbort); ok && pa.kind != "unsupported" {
				panic(r)
			}
			m.inited[pkg] = 3
			m.env.noteInitFailure(pkg.Pkg.Path(), fmt.Sprint(r))
			return
		}
		m.inited[pkg] = 2
	}()
	m.callSSA(nil, token.NoPos, init, nil, nil)
}

// postInit installs models for package-level function variables that the
// (black-holed) initialiser would have set.
func (m *Machine) postInit(pkg *ssa.Package) {
	if pkg.Pkg.Path() != "github.com/icon-project/goloop/common/log" {
		return
	}
	for name, mem := range pkg.Members {
		g, ok := mem.(*ssa.Global)
		if !ok {
			continue
		}
		if _, ok := deref(g.Type()).Underlying().(*types.Signature); !ok {
			continue
		}
		p := m.globals[g]
		if p == nil {
			continue
		}
		if f, ok := (*p).(*ssa.Function); !ok || f != nil {
			continue // already set by the initialiser
		}
		nm := name
		switch {
		case nm == "Must":
			*p = &intrinsicFn{name: "log.Must", f: func(m *Machine, fr *frame, args []value) value {
				if it, ok := args[0].(iface); ok && it.t != nil {
					panic(targetPanic{m.errString("log.Must: error")})
				}
				return nil
			}}
		case strings.HasPrefix(nm, "Panic") || strings.HasPrefix(nm, "Fatal"):
			*p = &intrinsicFn{name: "log." + nm, f: func(m *Machine, fr *frame, args []value) value {
				panic(targetPanic{m.errString("log." + nm + " called")})
			}}
		default:
			*p = &intrinsicFn{name: "log." + nm, f: func(m *Machine, fr *frame, args []value) value { return nil }}
		}
	}
}

// defaultSkipInit: run-time/system packages whose initializers talk to the
// OS or the Go runtime and are never the subject of a property.
func defaultSkipInit(path string) bool {
	switch path {
	case "runtime", "syscall", "os", "unsafe", "reflect", "internal/reflectlite", "net", "os/signal", "os/exec", "os/user", "plugin", "testing":
		return true
	}
	if path == "internal/oserror" {
		return false
	}
	for _, p := range []string{"runtime/", "internal/", "net/", "golang.org/x/sys/", "crypto/internal/", "vendor/"} {
		if strings.HasPrefix(path, p) {
			return true
		}
	}
	return false
}

func deref(t types.Type) types.Type {
	if p, ok := t.Underlying().(*types.Pointer); ok {
		return p.Elem()
	}
	panic(fmt.Sprintf("deref of non-pointer %v", t))
}

func (fr *frame) runDefer(d *deferred) {
	var ok bool
	defer func() {
		if !ok {
			r := recover()
			if pa, isAbort := r.(pathAbort); isAbort {
				panic(pa)
			}
			fr.panicking = true
			fr.panic = r
		}
	}()
	fr.m.call(fr, d.instr.Pos(), d.fn, d.args)
	ok = true
}

func (fr *frame) runDefers() {
	for d := fr.defers; d != nil; d = d.tail {
		fr.runDefer(d)
	}
	fr.defers = nil
	if fr.panicking {
		panic(fr.panic)
	}
}

func (m *Machine) lookupMethod(typ types.Type, meth *types.Func) *ssa.Function {
	return m.prog.LookupMethod(typ, meth.Pkg(), meth.Name())
}

func (m *Machine) step(fr *frame, instr ssa.Instruction) {
	m.steps++
	if m.steps > m.lim.MaxSteps {
		panic(pathAbort{"limit", fmt.Sprintf("more than %d SSA steps on one path (unwinding limit) in %s", m.lim.MaxSteps, fr.fn)})
	}
}

type continuation int

const (
	kNext continuation = iota
	kReturn
	kJump
)

var itrace = os.Getenv("GOSYM_ITRACE") != ""

func (m *Machine) visitInstr(fr *frame, instr ssa.Instruction) continuation {
	m.step(fr, instr)
	if itrace {
		defer func() {
			if v, ok := instr.(ssa.Value); ok {
				fmt.Fprintf(os.Stderr, "    [%s] %s = %s  => %.200s\n", fr.fn.Name(), v.Name(), instr, fmt.Sprintf("%v", fr.env[v]))
			} else {
				fmt.Fprintf(os.Stderr, "    [%s] %s\n", fr.fn.Name(), instr)
			}
		}()
	}
	switch instr := instr.(type) {
	case *ssa.DebugRef:
	case *ssa.UnOp:
		fr.env[instr] = m.unop(instr, fr.get(instr.X))
	case *ssa.BinOp:
		fr.env[instr] = m.binop(instr.Op, instr.X.Type(), fr.get(instr.X), fr.get(instr.Y))
	case *ssa.Call:
		fn, args := m.prepareCall(fr, &instr.Call)
		fr.callInstr = instr
		fr.env[instr] = m.call(fr, instr.Pos(), fn, args)
	case *ssa.ChangeInterface:
		fr.env[instr] = fr.get(instr.X)
	case *ssa.ChangeType:
		fr.env[instr] = fr.get(instr.X)
	case *ssa.Convert:
		fr.env[instr] = m.conv(instr.Type(), instr.X.Type(), fr.get(instr.X))
	case *ssa.MultiConvert:
		fr.env[instr] = m.conv(instr.Type(), instr.X.Type(), fr.get(instr.X))
	case *ssa.SliceToArrayPointer:
		fr.env[instr] = m.sliceToArrayPointer(instr.Type(), fr.get(instr.X))
	case *ssa.MakeInterface:
		fr.env[instr] = iface{t: instr.X.Type(), v: fr.get(instr.X)}
	case *ssa.Extract:
		fr.env[instr] = fr.get(instr.Tuple).(tuple)[instr.Index]
	case *ssa.Slice:
		fr.env[instr] = m.slice(instr.X.Type(), fr.get(instr.X), fr.get(instr.Low), fr.get(instr.High), fr.get(instr.Max))
	case *ssa.Return:
		switch len(instr.Results) {
		case 0:
		case 1:
			fr.result = fr.get(instr.Results[0])
		default:
			var res []value
			for _, r := range instr.Results {
				res = append(res, fr.get(r))
			}
			fr.result = tuple(res)
		}
		fr.block = nil
		return kReturn
	case *ssa.RunDefers:
		fr.runDefers()
	case *ssa.Panic:
		panic(targetPanic{fr.get(instr.X)})
	case *ssa.Send:
		m.chanSend(fr.get(instr.Chan), fr.get(instr.X))
	case *ssa.Store:
		m.store(fr.get(instr.Addr), fr.get(instr.Val))
	case *ssa.If:
		succ := 1
		cond := fr.get(instr.Cond).(*smt.Term)
		if !cond.IsConst() && m.spec == 0 && !m.env.NoFold && m.tryFold(fr, cond) {
			return kJump
		}
		if m.branch(cond) {
			succ = 0
		}
		fr.prevBlock, fr.block = fr.block, fr.block.Succs[succ]
		return kJump
	case *ssa.Jump:
		fr.prevBlock, fr.block = fr.block, fr.block.Succs[0]
		return kJump
	case *ssa.Defer:
		fn, args := m.prepareCall(fr, &instr.Call)
		defers := &fr.defers
		if instr.DeferStack != nil {
			if into := fr.get(instr.DeferStack); into != nil {
				defers = into.(**deferred)
			}
		}
		*defers = &deferred{fn: fn, args: args, instr: instr, tail: *defers}
	case *ssa.Go:
		fn, args := m.prepareCall(fr, &instr.Call)
		m.spawn(fr, instr, fn, args)
	case *ssa.MakeChan:
		n := m.concInt(fr.get(instr.Size), "chan size")
		fr.env[instr] = &chanV{cap: n}
	case *ssa.Alloc:
		var addr *value
		if instr.Heap {
			addr = new(value)
			fr.env[instr] = addr
		} else {
			addr = fr.env[instr].(*value)
		}
		*addr = m.zero(deref(instr.Type()))
	case *ssa.MakeSlice:
		ln := m.concInt(fr.get(instr.Len), "make len")
		cp := m.concInt(fr.get(instr.Cap), "make cap")
		if ln < 0 || cp < ln {
			panic(runtimeErr{"makeslice: len out of range"})
		}
		if cp > 1<<24 {
			panic(pathAbort{"unsupported", fmt.Sprintf("make of %d elements", cp)})
		}
		a := make([]value, cp)
		tElt := instr.Type().Underlying().(*types.Slice).Elem()
		if cp > 0 {
			z := m.zero(tElt)
			a[0] = z
			for i := 1; i < cp; i++ {
				a[i] = copyVal(z)
			}
		}
		fr.env[instr] = sliceV{a: a, n: ln}
	case *ssa.MakeMap:
		fr.env[instr] = m.makeMap(instr.Type().Underlying().(*types.Map).Key())
	case *ssa.Range:
		fr.env[instr] = m.rangeIter(fr.get(instr.X), instr.X.Type())
	case *ssa.Next:
		fr.env[instr] = fr.get(instr.Iter).(iter).next()
	case *ssa.FieldAddr:
		p := fr.get(instr.X).(*value)
		if p == nil {
			panic(runtimeErr{"invalid memory address or nil pointer dereference"})
		}
		fr.env[instr] = &(*p).(structure)[instr.Field]
	case *ssa.Field:
		fr.env[instr] = fr.get(instr.X).(structure)[instr.Field]
	case *ssa.IndexAddr:
		fr.env[instr] = m.indexAddr(fr.get(instr.X), fr.get(instr.Index).(*smt.Term))
	case *ssa.Index:
		fr.env[instr] = m.index(fr.get(instr.X), fr.get(instr.Index).(*smt.Term))
	case *ssa.Lookup:
		fr.env[instr] = m.lookup(instr, fr.get(instr.X), fr.get(instr.Index))
	case *ssa.MapUpdate:
		mp := fr.get(instr.Map).(*mapV)
		if mp == nil {
			panic(targetPanic{m.errString("assignment to entry in nil map")})
		}
		m.mapInsert(mp, fr.get(instr.Key), fr.get(instr.Value))
	case *ssa.TypeAssert:
		fr.env[instr] = m.typeAssert(instr, fr.get(instr.X).(iface))
	case *ssa.MakeClosure:
		var bindings []value
		for _, b := range instr.Bindings {
			bindings = append(bindings, fr.get(b))
		}
		fr.env[instr] = &closure{instr.Fn.(*ssa.Function), bindings}
	case *ssa.Phi:
		panic("unreachable: phi")
	case *ssa.Select:
		fr.env[instr] = m.selectOp(instr, fr)
	default:
		panic(pathAbort{"unsupported", fmt.Sprintf("instruction %T", instr)})
	}
	return kNext
}

func (m *Machine) indexAddr(x value, idx *smt.Term) value {
	var elems []value
	switch x := x.(type) {
	case sliceV:
		elems = x.elems()
	case *value:
		if x == nil {
			panic(runtimeErr{"invalid memory address or nil pointer dereference"})
		}
		elems = (*x).(array)
	default:
		panic(fmt.Sprintf("unexpected x type in IndexAddr: %T", x))
	}
	if idx.IsConst() {
		i := idx.Int64()
		if i < 0 || i >= int64(len(elems)) {
			panic(runtimeErr{fmt.Sprintf("index out of range [%d] with length %d", i, len(elems))})
		}
		if len(m.symLogs) > 0 && len(elems) > 0 {
			if _, ok := m.symLogs[&elems[0]]; ok {
				return &logPtr{elems: elems, idx: m.c.BVConst(64, uint64(i)), m: m}
			}
		}
		return &elems[i]
	}
	idx = m.toIdx64(idx)
	m.boundsCheck(idx, len(elems))
	if len(elems) == 1 {
		return &elems[0]
	}
	// symbolic index
	scalar := true
	for _, e := range elems {
		if _, ok := e.(*smt.Term); !ok {
			scalar = false
			break
		}
	}
	if scalar && len(elems) <= m.env.IteIndexMax {
		return &elemPtr{elems: elems, idx: idx, m: m}
	}
	if scalar {
		// large scalar table (hash tables): symbolic accesses go through a write log
		return &logPtr{elems: elems, idx: idx, m: m}
	}
	i := m.concretize(idx, "index")
	return &elems[i]
}

// logPtr addresses one element of a large scalar array that is accessed with
// symbolic indices.  Writes through it are appended to a per-array log
// (m.symLogs, keyed by the address of element 0); reads fold the log over the
// base contents: read(i) = ite(i == i_k, v_k, ... base[i]).  Once an array has
// a log every access (also with a constant index) goes through it.
type logPtr struct {
	elems []value
	idx   *smt.Term // BV64, in range under the path condition
	m     *Machine
}

type logEntry struct {
	idx *smt.Term
	v   *smt.Term
}

func (p *logPtr) load() value {
	m := p.m
	var r *smt.Term
	if p.idx.IsConst() {
		r = p.elems[p.idx.V].(*smt.Term)
	} else {
		r = (&elemPtr{elems: p.elems, idx: p.idx, m: m}).load().(*smt.Term)
	}
	for _, e := range m.symLogs[&p.elems[0]] {
		r = m.c.Ite(m.c.Eq(e.idx, p.idx), e.v, r)
	}
	return r
}

func (p *logPtr) store(v value) {
	m := p.m
	if m.symLogs == nil {
		m.symLogs = map[*value][]logEntry{}
	}
	k := &p.elems[0]
	m.symLogs[k] = append(m.symLogs[k], logEntry{p.idx, v.(*smt.Term)})
}

func (m *Machine) toIdx64(idx *smt.Term) *smt.Term {
	if idx.S.W < 64 {
		// index expressions of narrower types: the static type is lost here, treat as
		// non-negative (callers convert first when signedness matters)
		return m.c.ZeroExt(idx, 64)
	}
	return idx
}

// boundsCheck forks: in-range continues, out-of-range panics.
func (m *Machine) boundsCheck(idx *smt.Term, n int) {
	if idx.Op == smt.OIte || idx.Op == smt.OZeroExt {
		if mx, ok := m.iteLeafMax(idx); ok && mx < uint64(n) {
			return
		}
		if idx.Op == smt.OZeroExt && idx.Args[0].S.W < 63 && (uint64(1)<<uint(idx.Args[0].S.W)) <= uint64(n) {
			return // e.g. a byte indexing a 256-entry table
		}
	}
	in := m.c.BvCmp(smt.OBvUlt, idx, m.c.BVConst(64, uint64(n)))
	if !m.branch(in) {
		panic(runtimeErr{fmt.Sprintf("index out of range [sym] with length %d", n)})
	}
}

func (m *Machine) index(x value, idx *smt.Term) value {
	switch x := x.(type) {
	case array:
		if idx.IsConst() {
			i := idx.Int64()
			if i < 0 || i >= int64(len(x)) {
				panic(runtimeErr{fmt.Sprintf("index out of range [%d] with length %d", i, len(x))})
			}
			return copyVal(x[i])
		}
		p := m.indexAddr(&[]value{x}[0], idx)
		return m.load(p)
	case strV:
		if idx.IsConst() {
			i := idx.Int64()
			if i < 0 || i >= int64(x.length()) {
				panic(runtimeErr{fmt.Sprintf("index out of range [%d] with length %d", i, x.length())})
			}
			return m.strByte(x, int(i))
		}
		idx = m.toIdx64(idx)
		m.boundsCheck(idx, x.length())
		bs := m.strBytes(x)
		ev := make([]value, len(bs))
		for i, b := range bs {
			ev[i] = b
		}
		if len(ev) <= m.env.IteIndexMax {
			return (&elemPtr{elems: ev, idx: idx, m: m}).load()
		}
		i := m.concretize(idx, "string index")
		return bs[i]
	}
	panic(fmt.Sprintf("unexpected x type in Index: %T", x))
}

func (m *Machine) prepareCall(fr *frame, call *ssa.CallCommon) (fn value, args []value) {
	v := fr.get(call.Value)
	if call.Method == nil {
		fn = v
	} else {
		recv := v.(iface)
		if recv.t == nil {
			panic(runtimeErr{"invalid memory address or nil pointer dereference (method " + call.Method.Name() + " on nil interface)"})
		}
		if bh, ok := recv.v.(*blackhole); ok {
			fn = &intrinsicFn{name: "blackhole." + call.Method.Name(), f: bh.method(call.Method)}
			args = append(args, recv.v)
		} else if _, ok := recv.v.(*rtypeV); ok {
			fn = &intrinsicFn{name: "reflect.Type." + call.Method.Name(), f: m.rtypeMethod(call.Method.Name())}
			args = append(args, recv.v)
		} else {
			f := m.lookupMethod(recv.t, call.Method)
			if f == nil {
				panic(fmt.Sprintf("method set for dynamic type %v does not contain %s", recv.t, call.Method))
			}
			fn = f
			args = append(args, recv.v)
		}
	}
	for _, arg := range call.Args {
		args = append(args, fr.get(arg))
	}
	return
}

type intrinsicFn struct {
	name string
	f    func(m *Machine, fr *frame, args []value) value
}

func (m *Machine) call(caller *frame, callpos token.Pos, fn value, args []value) value {
	switch fn := fn.(type) {
	case *ssa.Function:
		if fn == nil {
			panic(runtimeErr{"invalid memory address or nil pointer dereference (call of nil func)"})
		}
		return m.callSSA(caller, callpos, fn, args, nil)
	case *closure:
		if fn == nil {
			panic(runtimeErr{"invalid memory address or nil pointer dereference (call of nil func)"})
		}
		return m.callSSA(caller, callpos, fn.Fn, args, fn.Env)
	case *ssa.Builtin:
		return m.callBuiltin(caller, callpos, fn, args)
	case *intrinsicFn:
		return fn.f(m, caller, args)
	}
	panic(fmt.Sprintf("cannot call %T", fn))
}

func (m *Machine) callSSA(caller *frame, callpos token.Pos, fn *ssa.Function, args []value, env []value) value {
	if fn.Parent() == nil {
		if m.inInit > 0 && fn.Name() == "init" && fn.Synthetic != "" && caller != nil {
			// package initializer called from another initializer: packages are
			// initialized lazily on first touch of one of their globals
			return nil
		}
		name := fn.String()
		if fn.Origin() != nil {
			// instantiated generic: also try the origin's name
			if ext := m.env.intrinsic(fn.Origin().String()); ext != nil {
				r := ext(m, &frame{m: m, caller: caller, fn: fn}, args)
				if _, d := r.(declined); !d {
					return r
				}
			}
		}
		if rep, ok := m.env.Replace[name]; ok {
			return m.callSSA(caller, callpos, rep, args, nil)
		}
		if ext := m.env.intrinsic(name); ext != nil {
			r := ext(m, &frame{m: m, caller: caller, fn: fn}, args)
			if _, d := r.(declined); !d {
				return r
			}
			m.prepReal(name, args)
		}
		if fn.Blocks == nil {
			if fn.Pkg != nil {
				// assembly kernel with a pure-Go reference version in the same package (math/big)
				if g := fn.Pkg.Func(fn.Name() + "_g"); g != nil && g.Blocks != nil {
					return m.callSSA(caller, callpos, g, args, nil)
				}
			}
			panic(pathAbort{"unsupported", "no code for function: " + name})
		}
	}
	if fn.TypeParams().Len() > 0 && len(fn.TypeArgs()) == 0 {
		panic(pathAbort{"unsupported", "uninstantiated generic " + fn.String()})
	}
	if m.depth > 2000 {
		panic(pathAbort{"limit", "call depth > 2000"})
	}
	m.depth++
	defer func() { m.depth-- }()
	if m.trace {
		fmt.Fprintf(os.Stderr, "%s> %s\n", strings.Repeat(" ", m.depth%60), fn)
	}
	fr := &frame{m: m, caller: caller, fn: fn}
	fr.env = make(map[ssa.Value]value, 16)
	fr.block = fn.Blocks[0]
	fr.locals = make([]value, len(fn.Locals))
	for i, l := range fn.Locals {
		fr.locals[i] = m.zero(deref(l.Type()))
		fr.env[l] = &fr.locals[i]
	}
	for i, p := range fn.Params {
		fr.env[p] = args[i]
	}
	for i, fv := range fn.FreeVars {
		fr.env[fv] = env[i]
	}
	for fr.block != nil {
		m.runFrame(fr)
	}
	return fr.result
}

func (m *Machine) runFrame(fr *frame) {
	defer func() {
		if fr.block == nil {
			return // normal return
		}
		r := recover()
		if pa, ok := r.(pathAbort); ok {
			panic(pa)
		}
		if _, ok := r.(targetPanic); !ok {
			if _, ok := r.(runtimeErr); !ok {
				// interpreter bug or Go runtime error in the interpreter: surface as unsupported
				panic(pathAbort{"internal", fmt.Sprintf("%v (in %s)", r, fr.fn)})
			}
		}
		if m.trace && !fr.panicking && fr.cur != nil {
			fmt.Fprintf(os.Stderr, "PANIC %v in %s at %s: %v\n", r, fr.fn, m.prog.Fset.Position(fr.cur.Pos()), fr.cur)
		}
		fr.panicking = true
		fr.panic = r
		fr.runDefers()
		fr.block = fr.fn.Recover
		if fr.block == nil {
			// recovered in a function without named results: return zero
			fr.result = m.zeroResult(fr.fn)
		}
	}()
	for {
		nonPhis := m.executePhis(fr)
		for _, instr := range nonPhis {
			fr.cur = instr
			if m.visitInstr(fr, instr) == kReturn {
				return
			}
		}
	}
}

func (m *Machine) zeroResult(fn *ssa.Function) value {
	res := fn.Signature.Results()
	switch res.Len() {
	case 0:
		return nil
	case 1:
		return m.zero(res.At(0).Type())
	}
	return m.zero(res)
}

func (m *Machine) executePhis(fr *frame) []ssa.Instruction {
	firstNonPhi := -1
	for i, instr := range fr.block.Instrs {
		if _, ok := instr.(*ssa.Phi); !ok {
			firstNonPhi = i
			break
		}
	}
	nonPhis := fr.block.Instrs[firstNonPhi:]
	if fr.skipPhis {
		fr.skipPhis = false
		return nonPhis
	}
	if firstNonPhi > 0 {
		phis := fr.block.Instrs[:firstNonPhi]
		predIndex := -1
		for i, p := range fr.block.Preds {
			if p == fr.prevBlock {
				predIndex = i
				break
			}
		}
		fr.phitemps = fr.phitemps[:0]
		for _, phi := range phis {
			fr.phitemps = append(fr.phitemps, fr.get(phi.(*ssa.Phi).Edges[predIndex]))
		}
		for i, phi := range phis {
			fr.env[phi.(*ssa.Phi)] = fr.phitemps[i]
		}
	}
	return nonPhis
}

func (m *Machine) doRecover(caller *frame) value {
	if caller != nil && !caller.panicking && caller.caller != nil && caller.caller.panicking {
		caller.caller.panicking = false
		p := caller.caller.panic
		caller.caller.panic = nil
		switch p := p.(type) {
		case targetPanic:
			return p.v
		case runtimeErr:
			return m.runtimeErrorValue(p)
		default:
			panic(fmt.Sprintf("unexpected panic type %T in recover()", p))
		}
	}
	return iface{}
}

func (m *Machine) runtimeErrorValue(e runtimeErr) value {
	rt := m.prog.ImportedPackage("runtime")
	if rt != nil {
		if t := rt.Type("errorString"); t != nil {
			return iface{t: t.Object().Type(), v: strV{s: e.msg}}
		}
	}
	return m.errString(e.Error())
}

// errString builds an `error` value holding *errors.errorString{msg}.
func (m *Machine) errString(msg string) value {
	ep := m.prog.ImportedPackage("errors")
	if ep == nil {
		return iface{t: types.Typ[types.String], v: strV{s: msg}}
	}
	t := ep.Type("errorString").Object().Type()
	var v value = structure{strV{s: msg}}
	return iface{t: types.NewPointer(t), v: &v}
}

func (m *Machine) spawn(fr *frame, instr *ssa.Go, fn value, args []value) {
	switch m.env.GoMode {
	case "skip":
		return
	}
	// run to completion at the spawn point (one schedule)
	m.call(fr, instr.Pos(), fn, args)
}

// prepReal: an intrinsic declined and the real body will run; a mode-Z
// destination big.Int is reset to zero words first.
func (m *Machine) prepReal(name string, args []value) {
	if !strings.HasPrefix(name, "(*math/big.Int).") || len(args) == 0 {
		return
	}
	if p, ok := args[0].(*value); ok && p != nil {
		if st, ok := (*p).(structure); ok && len(st) == 2 {
			if _, isZ := st[1].(*bigZ); isZ {
				st[0] = m.c.False
				st[1] = nilSlice
			}
		}
	}
}

package interp

import (
	"fmt"
	"math/big"
	"os"
	"runtime/debug"
	"sort"
	"strings"
	"sync"
	"time"

	"golang.org/x/tools/go/ssa"

	"verif/engine/smt"
)

// Env is the read-only environment shared by all workers.
type Env struct {
	Prog        *ssa.Program
	Replace     map[string]*ssa.Function // function name -> replacement
	SkipInit    map[string]bool          // package paths whose init is skipped
	GoMode      string                   // "run" (default) | "skip"
	IteIndexMax int
	Params      map[string]int64
	Limits      Limits
	SolverKind  string
	TimeoutMS   int
	Workers     int
	MaxPaths    int
	Budget      time.Duration
	Trace       bool
	SolverLog   string
	MaxViol     int
	KnownKeys   []string // known-finding keys (spaces as _) of the property being checked
	BigNewIntZ  bool
	NoFold      bool

	mu           sync.Mutex
	initFailures map[string]string
	intrinsics   map[string]intrinsicImpl
}

type intrinsicImpl func(m *Machine, fr *frame, args []value) value

func NewEnv(prog *ssa.Program) *Env {
	e := &Env{
		Prog:         prog,
		Replace:      map[string]*ssa.Function{},
		SkipInit:     map[string]bool{},
		GoMode:       "run",
		IteIndexMax:  512,
		Params:       map[string]int64{},
		Limits:       Limits{MaxSteps: 20_000_000, MaxDecisions: 5000, ConcretCap: 64},
		SolverKind:   "z3-new",
		TimeoutMS:    30000,
		Workers:      8,
		MaxPaths:     200000,
		Budget:       10 * time.Minute,
		MaxViol:      8,
		initFailures: map[string]string{},
	}
	e.intrinsics = allIntrinsics()
	return e
}

func (e *Env) isKnown(v Violation) bool {
	k := strings.ReplaceAll(v.Harness+":"+v.Msg, " ", "_")
	for _, key := range e.KnownKeys {
		if key != "" && strings.Contains(k, key) {
			return true
		}
	}
	return false
}

func (e *Env) intrinsic(name string) intrinsicImpl {
	return e.intrinsics[name]
}

func (e *Env) noteInitFailure(pkg, msg string) {
	e.mu.Lock()
	defer e.mu.Unlock()
	if _, ok := e.initFailures[pkg]; !ok {
		e.initFailures[pkg] = msg
	}
}

func (e *Env) InitFailures() map[string]string {
	e.mu.Lock()
	defer e.mu.Unlock()
	r := map[string]string{}
	for k, v := range e.initFailures {
		r[k] = v
	}
	return r
}

// Violation is a counterexample found on one path.
type Violation struct {
	Harness   string            `json:"harness"`
	Kind      string            `json:"kind"` // assert | panic
	Msg       string            `json:"msg"`
	Model     map[string]string `json:"model"`
	Decisions []int             `json:"decisions"`
	Labels    []string          `json:"labels"`
}

// PathResult summarises one explored path.
type PathResult struct {
	Decisions       []int
	Status          string // ok | abort:<kind>
	AbortMsg        string
	Steps           int
	Queries         int
	UnknownBranches int
	Obligations     int
	Discharged      int
	Trivial         int
	Inconclusive    []string
	Violations      []Violation
	Labels          []string
	Observes        []string
	Inputs          []inputRec
}

// HarnessResult aggregates over all paths of one harness function.
type HarnessResult struct {
	Harness      string
	Paths        int
	PathsOK      int
	Steps        int64
	Queries      int64
	SolverTime   time.Duration
	Obligations  int
	Discharged   int
	Trivial      int
	Inconclusive []string
	Aborts       map[string]int
	AbortSamples map[string]string
	Violations   []Violation
	Labels       map[string]int
	Samples      []map[string]interface{}
	Truncated    bool
	Wall         time.Duration
	UnknownBr    int
	SolverErrors []string
	MaxDecisions int
}

func (m *Machine) reset(prefix []int) {
	m.c = smt.NewCtx()
	m.globals = map[*ssa.Global]*value{}
	m.inited = map[*ssa.Package]int{}
	m.pc = nil
	m.asserted = 0
	m.prefix = prefix
	m.decisions = nil
	m.pending = nil
	m.steps = 0
	m.varCount = map[string]int{}
	m.inputs = nil
	m.depth = 0
	m.extra = nil
	m.hashApps = map[string][]hashApp{}
	m.clock = 0
	m.keySeq = 0
	m.symLogs = nil
	m.hashOrder = nil
	m.rtypes = nil
	m.timers = nil
	m.path = &PathResult{}
	m.solver.Reset()
}

func newMachine(env *Env) (*Machine, error) {
	s, err := smt.NewSolver(env.SolverKind, env.TimeoutMS)
	if err != nil {
		return nil, err
	}
	m := &Machine{prog: env.Prog, env: env, solver: s, lim: env.Limits, trace: env.Trace, params: env.Params}
	return m, nil
}

// runPath executes the harness along the decision prefix.
func (m *Machine) runPath(h *ssa.Function, prefix []int) (res *PathResult, pending [][]int) {
	m.reset(prefix)
	res = m.path
	defer func() {
		res.Decisions = append([]int(nil), m.decisions...)
		res.Steps = m.steps
		res.Inputs = m.inputs
		pending = m.pending
		if r := recover(); r != nil {
			switch r := r.(type) {
			case pathAbort:
				res.Status = "abort:" + r.kind
				res.AbortMsg = r.msg
			case targetPanic:
				m.recordPanicViolation(h, m.panicString(r.v))
				res.Status = "panic"
			case runtimeErr:
				m.recordPanicViolation(h, r.Error())
				res.Status = "panic"
			default:
				res.Status = "abort:internal"
				res.AbortMsg = fmt.Sprintf("%v\n%s", r, debug.Stack())
			}
		}
	}()
	m.callSSA(nil, 0, h, nil, nil)
	res.Status = "ok"
	return
}

func (m *Machine) panicString(v value) string {
	if it, ok := v.(iface); ok {
		switch x := it.v.(type) {
		case strV:
			if x.concrete() {
				return "panic: " + x.s
			}
		case *value:
			// error value: try the Error method concretely
			if it.t != nil {
				if s := m.tryErrorString(it); s != "" {
					return "panic: " + s
				}
			}
		}
		if it.t != nil {
			return "panic: value of type " + typeString(it.t)
		}
		return "panic: nil"
	}
	return fmt.Sprintf("panic: %T", v)
}

func (m *Machine) tryErrorString(it iface) (s string) {
	defer func() {
		if r := recover(); r != nil {
			s = ""
		}
	}()
	ms := m.prog.MethodSets.MethodSet(it.t)
	for i := 0; i < ms.Len(); i++ {
		if ms.At(i).Obj().Name() == "Error" {
			fn := m.prog.MethodValue(ms.At(i))
			if fn == nil {
				return ""
			}
			r := m.callSSA(nil, 0, fn, []value{it.v}, nil)
			if sv, ok := r.(strV); ok && sv.concrete() {
				return sv.s
			}
		}
	}
	return ""
}

func (m *Machine) model() (map[string]string, bool) {
	m.flushPC()
	r := m.solver.CheckSat(m.c, nil)
	m.path.Queries++
	if r != smt.Sat {
		return nil, false
	}
	return m.readModel()
}

func (m *Machine) readModel() (map[string]string, bool) {
	mv, err := m.solver.Values(m.c.Vars)
	if err != nil {
		return nil, false
	}
	out := map[string]string{}
	for _, in := range m.inputs {
		if in.Term == nil {
			out[in.Name] = fmt.Sprint(in.Conc)
			continue
		}
		v, ok := mv[in.Term.Name]
		if !ok {
			continue
		}
		switch {
		case v.IsBool:
			if v.B {
				out[in.Name] = "1"
			} else {
				out[in.Name] = "0"
			}
		default:
			out[in.Name] = v.V.String()
		}
	}
	return out, true
}

func (m *Machine) recordPanicViolation(h *ssa.Function, msg string) {
	if m.inInit > 0 {
		return
	}
	model, ok := m.model()
	if !ok {
		m.path.Inconclusive = append(m.path.Inconclusive, "panic reached but no model: "+msg)
		return
	}
	m.path.Violations = append(m.path.Violations, Violation{
		Harness: h.Name(), Kind: "panic", Msg: msg, Model: model,
		Decisions: append([]int(nil), m.decisions...), Labels: append([]string(nil), m.path.Labels...),
	})
}

// Explore runs all feasible paths of the harness.
func Explore(env *Env, h *ssa.Function) *HarnessResult {
	t0 := time.Now()
	hr := &HarnessResult{Harness: h.Name(), Aborts: map[string]int{}, AbortSamples: map[string]string{}, Labels: map[string]int{}}
	var mu sync.Mutex
	work := [][]int{{}}
	active := 0
	cond := sync.NewCond(&mu)
	deadline := t0.Add(env.Budget)
	stop := false
	knownKept, unknownViol := 0, 0

	worker := func(id int) {
		m, err := newMachine(env)
		if err != nil {
			mu.Lock()
			hr.SolverErrors = append(hr.SolverErrors, err.Error())
			mu.Unlock()
			return
		}
		defer m.solver.Close()
		if env.SolverLog != "" && id == 0 {
			f, err := os.Create(env.SolverLog)
			if err == nil {
				m.solver.Log = f
				defer f.Close()
			}
		}
		for {
			mu.Lock()
			for len(work) == 0 && active > 0 && !stop {
				cond.Wait()
			}
			if stop || (len(work) == 0 && active == 0) {
				mu.Unlock()
				cond.Broadcast()
				return
			}
			prefix := work[len(work)-1]
			work = work[:len(work)-1]
			active++
			mu.Unlock()

			q0, st0 := m.solver.Queries, m.solver.Time
			res, pending := m.runPath(h, prefix)
			dq, dt := m.solver.Queries-q0, m.solver.Time-st0

			mu.Lock()
			active--
			hr.Paths++
			hr.Steps += int64(res.Steps)
			hr.Queries += int64(dq)
			hr.SolverTime += dt
			hr.Obligations += res.Obligations
			hr.Discharged += res.Discharged
			hr.Trivial += res.Trivial
			hr.UnknownBr += res.UnknownBranches
			if len(res.Decisions) > hr.MaxDecisions {
				hr.MaxDecisions = len(res.Decisions)
			}
			for _, s := range res.Inconclusive {
				if len(hr.Inconclusive) < 50 {
					hr.Inconclusive = append(hr.Inconclusive, s)
				} else {
					hr.Inconclusive[49] = "… more"
				}
			}
			for _, l := range res.Labels {
				hr.Labels[l]++
			}
			if res.Status == "ok" {
				hr.PathsOK++
			} else if strings.HasPrefix(res.Status, "abort:") {
				k := strings.TrimPrefix(res.Status, "abort:")
				hr.Aborts[k]++
				if _, ok := hr.AbortSamples[k+": "+firstLine(res.AbortMsg)]; !ok && len(hr.AbortSamples) < 12 {
					hr.AbortSamples[k+": "+firstLine(res.AbortMsg)] = res.AbortMsg
				}
			}
			for _, v := range res.Violations {
				// violations matching a recorded known finding are sampled but never
				// use up the cap that stops the exploration
				if env.isKnown(v) {
					if knownKept < 3 {
						knownKept++
						hr.Violations = append(hr.Violations, v)
					}
					continue
				}
				if unknownViol < env.MaxViol {
					unknownViol++
					hr.Violations = append(hr.Violations, v)
				}
			}
			if len(hr.Samples) < 4 && (res.Status == "ok") && len(res.Inputs) > 0 {
				hr.Samples = append(hr.Samples, map[string]interface{}{
					"harness": h.Name(), "decisions": fmt.Sprint(res.Decisions), "obligations": res.Obligations,
					"discharged": res.Discharged, "labels": res.Labels, "steps": res.Steps, "inputs": inputNames(res.Inputs),
				})
			}
			work = append(work, pending...)
			if hr.Paths+len(work) > env.MaxPaths || time.Now().After(deadline) {
				if len(work) > 0 || active > 0 {
					hr.Truncated = true
				}
				stop = true
			}
			if unknownViol >= env.MaxViol {
				stop = true
				if len(work) > 0 || active > 0 {
					hr.Truncated = true
				}
			}
			mu.Unlock()
			cond.Broadcast()
			for _, e := range m.solver.Errors {
				mu.Lock()
				if len(hr.SolverErrors) < 10 {
					hr.SolverErrors = append(hr.SolverErrors, e)
				}
				mu.Unlock()
			}
			m.solver.Errors = nil
		}
	}
	var wg sync.WaitGroup
	for i := 0; i < env.Workers; i++ {
		wg.Add(1)
		go func(id int) { defer wg.Done(); worker(id) }(i)
	}
	wg.Wait()
	hr.Wall = time.Since(t0)
	return hr
}

func firstLine(s string) string {
	if i := strings.IndexByte(s, '\n'); i >= 0 {
		return s[:i]
	}
	return s
}

func inputNames(in []inputRec) []string {
	var r []string
	for _, i := range in {
		if len(r) >= 24 {
			r = append(r, "…")
			break
		}
		if i.Term == nil {
			r = append(r, fmt.Sprintf("%s=%d", i.Name, i.Conc))
		} else {
			r = append(r, i.Name+":"+i.Kind)
		}
	}
	return r
}

// RunConcrete executes the harness once with concrete inputs taken from vec
// (missing inputs are drawn from the seed).  Used by the translator self-test.
func RunConcrete(env *Env, h *ssa.Function, vec map[string]string, seed uint64) (*PathResult, map[string]string) {
	m, err := newMachine(env)
	if err != nil {
		return &PathResult{Status: "abort:solver", AbortMsg: err.Error()}, nil
	}
	defer m.solver.Close()
	m.concrete = true
	m.replayVec = vec
	m.rng = seed*2862933555777941757 + 3037000493
	res, _ := m.runPath(h, nil)
	out := map[string]string{}
	for _, in := range res.Inputs {
		out[in.Name] = fmt.Sprint(in.Conc)
		if in.Term != nil && in.Term.IsConst() {
			out[in.Name] = smt.ConstBig(in.Term).String()
		}
	}
	return res, out
}

func sortedKeys(m map[string]int) []string {
	var ks []string
	for k := range m {
		ks = append(ks, k)
	}
	sort.Strings(ks)
	return ks
}

var _ = big.NewInt

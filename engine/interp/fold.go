package interp

import (
	"go/token"
	"go/types"

	"golang.org/x/tools/go/ssa"

	"verif/engine/smt"
)

// If-conversion: a conditional whose two arms reach a common join through a
// small acyclic region of side-effect-free instructions is evaluated on both
// arms and merged with ite terms instead of forking the path.  Evaluation is
// speculative: anything that would need a fork, could panic, or has a side
// effect abandons the attempt and the ordinary fork happens.

type specAbort struct{}

type pdomInfo struct {
	ipdom map[*ssa.BasicBlock]*ssa.BasicBlock // nil = exit
}

func (m *Machine) postDoms(fn *ssa.Function) *pdomInfo {
	if m.pdoms == nil {
		m.pdoms = map[*ssa.Function]*pdomInfo{}
	}
	if pi, ok := m.pdoms[fn]; ok {
		return pi
	}
	n := len(fn.Blocks)
	words := (n + 1 + 63) / 64
	exit := n
	type bits []uint64
	full := func() bits {
		b := make(bits, words)
		for i := 0; i <= n; i++ {
			b[i/64] |= 1 << uint(i%64)
		}
		return b
	}
	pd := make([]bits, n+1)
	for i := range pd {
		pd[i] = full()
	}
	pd[exit] = make(bits, words)
	pd[exit][exit/64] |= 1 << uint(exit%64)
	succs := func(b *ssa.BasicBlock) []int {
		if len(b.Succs) == 0 {
			return []int{exit}
		}
		r := make([]int, len(b.Succs))
		for i, s := range b.Succs {
			r[i] = s.Index
		}
		return r
	}
	changed := true
	for changed {
		changed = false
		for i := n - 1; i >= 0; i-- {
			b := fn.Blocks[i]
			nb := full()
			for _, s := range succs(b) {
				for w := range nb {
					nb[w] &= pd[s][w]
				}
			}
			nb[i/64] |= 1 << uint(i%64)
			for w := range nb {
				if nb[w] != pd[i][w] {
					changed = true
					pd[i] = nb
					break
				}
			}
		}
	}
	count := func(b bits) int {
		c := 0
		for _, w := range b {
			for ; w != 0; w &= w - 1 {
				c++
			}
		}
		return c
	}
	pi := &pdomInfo{ipdom: map[*ssa.BasicBlock]*ssa.BasicBlock{}}
	for i := 0; i < n; i++ {
		if count(pd[i]) == n+1 {
			pi.ipdom[fn.Blocks[i]] = nil
			continue
		}
		strict := count(pd[i]) - 1
		var ip *ssa.BasicBlock
		for j := 0; j < n; j++ {
			if j != i && pd[i][j/64]&(1<<uint(j%64)) != 0 && count(pd[j]) == strict {
				ip = fn.Blocks[j]
				break
			}
		}
		pi.ipdom[fn.Blocks[i]] = ip
	}
	m.pdoms[fn] = pi
	return pi
}

const foldMaxBlocks = 24

// tryFold attempts if-conversion at the If terminating fr.block.
func (m *Machine) tryFold(fr *frame, cond *smt.Term) (ok bool) {
	B := fr.block
	J := m.postDoms(fr.fn).ipdom[B]
	if J == nil || J == B {
		return false
	}
	// collect region
	region := map[*ssa.BasicBlock]bool{}
	var order []*ssa.BasicBlock // reverse post-order
	state := map[*ssa.BasicBlock]int{}
	cyclic := false
	var dfs func(b *ssa.BasicBlock)
	dfs = func(b *ssa.BasicBlock) {
		if b == J || cyclic {
			return
		}
		if b == B {
			cyclic = true
			return
		}
		switch state[b] {
		case 1:
			cyclic = true
			return
		case 2:
			return
		}
		state[b] = 1
		region[b] = true
		if len(region) > foldMaxBlocks {
			cyclic = true
			return
		}
		for _, s := range b.Succs {
			dfs(s)
		}
		state[b] = 2
		order = append(order, b)
	}
	dfs(B.Succs[0])
	dfs(B.Succs[1])
	if cyclic {
		return false
	}
	for b := range region {
		if !m.blockFoldable(b) {
			return false
		}
	}
	// speculative evaluation
	saved := map[ssa.Value]value{}
	var defined []ssa.Value
	setEnv := func(k ssa.Value, v value) {
		if old, had := fr.env[k]; had {
			if _, s := saved[k]; !s {
				saved[k] = old
			}
		} else {
			defined = append(defined, k)
		}
		fr.env[k] = v
	}
	stepsBefore := m.steps
	m.spec++
	defer func() {
		m.spec--
		if r := recover(); r != nil {
			if pa, isAbort := r.(pathAbort); isAbort {
				panic(pa)
			}
			// abandon: restore env
			for _, k := range defined {
				delete(fr.env, k)
			}
			for k, v := range saved {
				fr.env[k] = v
			}
			m.steps = stepsBefore
			ok = false
		}
	}()
	c := m.c
	type edge struct{ from, to *ssa.BasicBlock }
	eg := map[edge]*smt.Term{}
	eg[edge{B, B.Succs[0]}] = cond
	if B.Succs[0] == B.Succs[1] {
		eg[edge{B, B.Succs[0]}] = c.True
	} else {
		eg[edge{B, B.Succs[1]}] = c.Not(cond)
	}
	phiValue := func(blk *ssa.BasicBlock, phi *ssa.Phi) value {
		var res value
		have := false
		for i, p := range blk.Preds {
			g, live := eg[edge{p, blk}]
			if !live || g.IsFalse() {
				continue
			}
			v := fr.get(phi.Edges[i])
			if !have {
				res = v
				have = true
				continue
			}
			res = m.mergeValues(g, v, res)
		}
		if !have {
			panic(specAbort{})
		}
		return res
	}
	for i := len(order) - 1; i >= 0; i-- {
		blk := order[i]
		g := c.False
		for _, p := range blk.Preds {
			if e, live := eg[edge{p, blk}]; live {
				g = c.Or(g, e)
			}
		}
		if g.IsFalse() {
			// dead under every assignment: its out-edges are dead
			for _, s := range blk.Succs {
				eg[edge{blk, s}] = c.False
			}
			continue
		}
		// phis (parallel)
		var phis []*ssa.Phi
		var pvals []value
		for _, in := range blk.Instrs {
			phi, isPhi := in.(*ssa.Phi)
			if !isPhi {
				break
			}
			phis = append(phis, phi)
			pvals = append(pvals, phiValue(blk, phi))
		}
		for k, phi := range phis {
			setEnv(phi, pvals[k])
		}
		for _, in := range blk.Instrs[len(phis):] {
			m.steps++
			switch in := in.(type) {
			case *ssa.If:
				cv := fr.get(in.Cond).(*smt.Term)
				if blk.Succs[0] == blk.Succs[1] {
					eg[edge{blk, blk.Succs[0]}] = g
				} else {
					eg[edge{blk, blk.Succs[0]}] = c.And(g, cv)
					eg[edge{blk, blk.Succs[1]}] = c.And(g, c.Not(cv))
				}
			case *ssa.Jump:
				eg[edge{blk, blk.Succs[0]}] = g
			case *ssa.DebugRef:
			case ssa.Value:
				setEnv(in, m.evalPure(fr, in))
			default:
				panic(specAbort{})
			}
		}
	}
	// join block phis
	var jphis []*ssa.Phi
	var jvals []value
	for _, in := range J.Instrs {
		phi, isPhi := in.(*ssa.Phi)
		if !isPhi {
			break
		}
		jphis = append(jphis, phi)
		jvals = append(jvals, phiValue(J, phi))
	}
	for k, phi := range jphis {
		setEnv(phi, jvals[k])
	}
	fr.prevBlock, fr.block = B, J
	fr.skipPhis = true
	m.folds++
	return true
}

func (m *Machine) mergeValues(g *smt.Term, a, b value) value {
	// ite(g, a, b)
	switch av := a.(type) {
	case *smt.Term:
		if bv, ok := b.(*smt.Term); ok && av.S == bv.S {
			return m.c.Ite(g, av, bv)
		}
	case strV:
		if bv, ok := b.(strV); ok {
			if av.concrete() && bv.concrete() && av.s == bv.s {
				return av
			}
			if av.length() == bv.length() {
				ab, bb := m.strBytes(av), m.strBytes(bv)
				r := make([]*smt.Term, len(ab))
				for i := range r {
					r[i] = m.c.Ite(g, ab[i], bb[i])
				}
				return mkStr(r)
			}
		}
	case *value:
		if bv, ok := b.(*value); ok && av == bv {
			return av
		}
	case iface:
		if bv, ok := b.(iface); ok {
			if av.t == nil && bv.t == nil {
				return av
			}
			if av.t != nil && bv.t != nil && types.Identical(av.t, bv.t) {
				return iface{t: av.t, v: m.mergeValues(g, av.v, bv.v)}
			}
		}
	case float64:
		if bv, ok := b.(float64); ok && av == bv {
			return av
		}
	case *mapV:
		if bv, ok := b.(*mapV); ok && av == bv {
			return av
		}
	case *ssa.Function:
		if bv, ok := b.(*ssa.Function); ok && av == bv {
			return av
		}
	case *closure:
		if bv, ok := b.(*closure); ok && av == bv {
			return av
		}
	}
	panic(specAbort{})
}

func (m *Machine) blockFoldable(b *ssa.BasicBlock) bool {
	if m.foldable == nil {
		m.foldable = map[*ssa.BasicBlock]bool{}
	}
	if v, ok := m.foldable[b]; ok {
		return v
	}
	ok := true
	for _, in := range b.Instrs {
		switch in := in.(type) {
		case *ssa.Phi, *ssa.If, *ssa.Jump, *ssa.DebugRef, *ssa.Convert, *ssa.ChangeType, *ssa.ChangeInterface,
			*ssa.MakeInterface, *ssa.Field, *ssa.FieldAddr, *ssa.IndexAddr, *ssa.Index, *ssa.Extract, *ssa.Slice:
		case *ssa.BinOp:
			if in.Op == token.QUO || in.Op == token.REM {
				ok = false
			}
			if in.Op == token.SHL || in.Op == token.SHR {
				if isSigned(in.Y.Type()) {
					if _, isC := in.Y.(*ssa.Const); !isC {
						ok = false
					}
				}
			}
		case *ssa.UnOp:
			if in.Op == token.ARROW {
				ok = false
			}
		case *ssa.TypeAssert:
			if !in.CommaOk {
				ok = false
			}
		case *ssa.Call:
			bi, isB := in.Call.Value.(*ssa.Builtin)
			if !isB {
				ok = false
				break
			}
			switch bi.Name() {
			case "len", "cap", "min", "max":
			default:
				ok = false
			}
		default:
			ok = false
		}
		if !ok {
			break
		}
	}
	m.foldable[b] = ok
	return ok
}

// evalPure evaluates one side-effect-free instruction (may panic -> abandon).
func (m *Machine) evalPure(fr *frame, in ssa.Value) value {
	switch instr := in.(type) {
	case *ssa.UnOp:
		return m.unop(instr, fr.get(instr.X))
	case *ssa.BinOp:
		return m.binop(instr.Op, instr.X.Type(), fr.get(instr.X), fr.get(instr.Y))
	case *ssa.Call:
		fn, args := m.prepareCall(fr, &instr.Call)
		return m.call(fr, instr.Pos(), fn, args)
	case *ssa.ChangeInterface:
		return fr.get(instr.X)
	case *ssa.ChangeType:
		return fr.get(instr.X)
	case *ssa.Convert:
		return m.conv(instr.Type(), instr.X.Type(), fr.get(instr.X))
	case *ssa.MakeInterface:
		return iface{t: instr.X.Type(), v: fr.get(instr.X)}
	case *ssa.Extract:
		return fr.get(instr.Tuple).(tuple)[instr.Index]
	case *ssa.Slice:
		return m.slice(instr.X.Type(), fr.get(instr.X), fr.get(instr.Low), fr.get(instr.High), fr.get(instr.Max))
	case *ssa.FieldAddr:
		p := fr.get(instr.X).(*value)
		if p == nil {
			panic(specAbort{})
		}
		return &(*p).(structure)[instr.Field]
	case *ssa.Field:
		return fr.get(instr.X).(structure)[instr.Field]
	case *ssa.IndexAddr:
		return m.indexAddr(fr.get(instr.X), fr.get(instr.Index).(*smt.Term))
	case *ssa.Index:
		return m.index(fr.get(instr.X), fr.get(instr.Index).(*smt.Term))
	case *ssa.TypeAssert:
		return m.typeAssert(instr, fr.get(instr.X).(iface))
	}
	panic(specAbort{})
}

package interp

import (
	"math/big"
	"crypto/sha256"
	"fmt"
	"go/types"
	"hash/crc32"
	"strings"

	"golang.org/x/crypto/sha3"
	"golang.org/x/tools/go/ssa"

	"verif/engine/smt"
)

const symPkg = "github.com/icon-project/goloop/zzverif/sym"

func (m *Machine) bytesOf(v value) []*smt.Term {
	switch s := v.(type) {
	case sliceV:
		r := make([]*smt.Term, s.n)
		for i, e := range s.elems() {
			r[i] = e.(*smt.Term)
		}
		return r
	case strV:
		return m.strBytes(s)
	case array:
		r := make([]*smt.Term, len(s))
		for i, e := range s {
			r[i] = e.(*smt.Term)
		}
		return r
	}
	panic(fmt.Sprintf("bytesOf %T", v))
}

func byteSlice(bs []*smt.Term) sliceV {
	a := make([]value, len(bs))
	for i, b := range bs {
		a[i] = b
	}
	return sliceV{a: a, n: len(a)}
}

func (m *Machine) constBytes(b []byte) sliceV {
	a := make([]value, len(b))
	for i, x := range b {
		a[i] = m.c.BVConst(8, uint64(x))
	}
	return sliceV{a: a, n: len(a)}
}

func allConst(bs []*smt.Term) ([]byte, bool) {
	r := make([]byte, len(bs))
	for i, b := range bs {
		if !b.IsConst() {
			return nil, false
		}
		r[i] = byte(b.V)
	}
	return r, true
}

func (m *Machine) concat(bs []*smt.Term) *smt.Term {
	if len(bs) == 0 {
		return nil
	}
	r := bs[0]
	for _, b := range bs[1:] {
		r = m.c.Concat(r, b)
	}
	return r
}

func (m *Machine) splitBytes(t *smt.Term) []*smt.Term {
	n := t.S.W / 8
	r := make([]*smt.Term, n)
	for i := 0; i < n; i++ {
		hi := t.S.W - 1 - 8*i
		r[i] = m.c.Extract(hi, hi-7, t)
	}
	return r
}

type hashApp struct {
	arg    *smt.Term // nil for empty input
	res    *smt.Term
	conc   bool
	done   bool
	native func([]byte) []byte
}

// hashModel: family is e.g. "sha3_256"; outBytes the digest length.
func (m *Machine) hashModel(family string, outBytes int, in []*smt.Term, native func([]byte) []byte) []*smt.Term {
	c := m.c
	cb, isConc := allConst(in)
	apps := m.hashApps[family]
	if isConc {
		d := native(cb)
		res := make([]*smt.Term, len(d))
		for i, x := range d {
			res[i] = c.BVConst(8, uint64(x))
		}
		hasSym := false
		for _, a := range apps {
			if !a.conc {
				hasSym = true
			}
		}
		app := hashApp{arg: m.concat(in), res: m.concat(res), conc: true}
		if hasSym {
			m.linkHash(family, outBytes, &app, apps)
		}
		m.hashApps[family] = append(apps, app)
		return res
	}
	arg := m.concat(in)
	name := fmt.Sprintf("%s_%d", family, len(in))
	rt := c.App(name, smt.BV(8*outBytes), arg)
	app := hashApp{arg: arg, res: rt, native: native}
	m.hashOrder = append(m.hashOrder, [2]interface{}{family, len(apps)})
	m.linkHash(family, outBytes, &app, apps)
	m.hashApps[family] = append(apps, app)
	return m.splitBytes(rt)
}

// linkHash adds ground collision-freeness axioms between app and earlier apps.
func (m *Machine) linkHash(family string, outBytes int, app *hashApp, apps []hashApp) {
	c := m.c
	if app.conc && app.arg != nil {
		name := fmt.Sprintf("%s_%d", family, app.arg.S.W/8)
		m.addPC(c.Eq(c.App(name, smt.BV(8*outBytes), app.arg), app.res))
	}
	for i := range apps {
		o := &apps[i]
		if o.conc && app.conc {
			continue
		}
		if o.conc && !o.done && o.arg != nil {
			name := fmt.Sprintf("%s_%d", family, o.arg.S.W/8)
			m.addPC(c.Eq(c.App(name, smt.BV(8*outBytes), o.arg), o.res))
			o.done = true
		}
		if o.arg == nil || app.arg == nil || o.arg.S != app.arg.S {
			if o.arg == nil && app.arg == nil {
				continue
			}
			m.addPC(c.Ne(o.res, app.res))
			continue
		}
		// same length: equal digests imply equal inputs
		m.addPC(c.Implies(c.Eq(o.res, app.res), c.Eq(o.arg, app.arg)))
	}
}

// realiseHashes is called inside the model frame of a satisfiable violation
// query: it replaces the arbitrary outputs the solver chose for uninterpreted
// hash applications by the REAL digests of the inputs of the current model
// (pinning input and output, in creation order so that nested hashes work),
// as far as the model stays satisfiable.  The counterexample then replays
// natively, where the real hash functions run.
func (m *Machine) realiseHashes() {
	for _, ref := range m.hashOrder {
		fam := ref[0].(string)
		idx := ref[1].(int)
		apps := m.hashApps[fam]
		if idx >= len(apps) {
			continue
		}
		app := apps[idx]
		if app.arg == nil || app.conc || app.native == nil || strings.HasPrefix(fam, "ecdsasig") {
			continue
		}
		v, err := m.solver.EvalBV(m.c, app.arg)
		if err != nil {
			return
		}
		n := app.arg.S.W / 8
		in := make([]byte, n)
		v.FillBytes(in)
		d := app.native(in)
		pin := m.c.And(m.c.Eq(app.arg, m.c.BVBig(app.arg.S.W, v)), m.c.Eq(app.res, m.c.BVBig(8*len(d), new(big.Int).SetBytes(d))))
		m.solver.TryPin(m.c, pin)
	}
}

func (m *Machine) freshName(name string) string {
	k := m.varCount[name]
	m.varCount[name] = k + 1
	if k == 0 {
		return name
	}
	return fmt.Sprintf("%s#%d", name, k)
}

func (m *Machine) replayValue(name string, w int) (uint64, bool) {
	if !m.concrete {
		return 0, false
	}
	if s, ok := m.replayVec[name]; ok {
		var v uint64
		var neg bool
		if strings.HasPrefix(s, "-") {
			neg = true
			s = s[1:]
		}
		fmt.Sscanf(s, "%d", &v)
		if neg {
			v = -v
		}
		return v & smt.MaskW(w), true
	}
	// xorshift
	m.rng ^= m.rng << 13
	m.rng ^= m.rng >> 7
	m.rng ^= m.rng << 17
	v := m.rng
	// bias towards small / boundary values
	switch v % 8 {
	case 0:
		v = (v >> 8) % 4
	case 1:
		v = smt.MaskW(w) - (v>>8)%3
	case 2:
		v = (v >> 8) % 300
	}
	return v & smt.MaskW(w), true
}

func (m *Machine) newBV(name string, w int, kind string) *smt.Term {
	n := m.freshName(name)
	if v, ok := m.replayValue(n, w); ok {
		t := m.c.BVConst(w, v)
		m.inputs = append(m.inputs, inputRec{Name: n, Kind: kind, Term: t, Conc: int64(v)})
		return t
	}
	t := m.c.Var(n, smt.BV(w))
	m.inputs = append(m.inputs, inputRec{Name: n, Kind: kind, Term: t})
	return t
}

func (m *Machine) argStr(v value) string {
	s := v.(strV)
	if !s.concrete() {
		panic(pathAbort{"unsupported", "symbolic string used as a sym.* name"})
	}
	return s.s
}

func (m *Machine) symChoice(name string, n int) int {
	nm := m.freshName(name)
	var k int
	if m.concrete {
		if v, ok := m.replayValue(nm, 64); ok {
			k = int(v % uint64(n))
		}
	} else {
		k = m.choose(n)
	}
	m.inputs = append(m.inputs, inputRec{Name: nm, Kind: "choice", Conc: int64(k)})
	return k
}

func allIntrinsics() map[string]intrinsicImpl {
	r := map[string]intrinsicImpl{}
	c := func(name string, f intrinsicImpl) { r[name] = f }

	// ---------------- sym ----------------
	bv := func(w int, kind string) intrinsicImpl {
		return func(m *Machine, fr *frame, args []value) value {
			return m.newBV(m.argStr(args[0]), w, kind)
		}
	}
	c(symPkg+".U8", bv(8, "u8"))
	c(symPkg+".U16", bv(16, "u16"))
	c(symPkg+".U32", bv(32, "u32"))
	c(symPkg+".U64", bv(64, "u64"))
	c(symPkg+".I8", bv(8, "i8"))
	c(symPkg+".I16", bv(16, "i16"))
	c(symPkg+".I32", bv(32, "i32"))
	c(symPkg+".I64", bv(64, "i64"))
	c(symPkg+".Int", bv(64, "i64"))
	// I64Z: an int64 backed by an SMT integer constrained to the int64 range
	// (for values that flow into math/big: avoids bit-vector/integer conversions)
	c(symPkg+".I64Z", func(m *Machine, fr *frame, args []value) value {
		n := m.freshName(m.argStr(args[0]))
		if m.concrete {
			u, _ := m.replayValue(n, 64)
			if s, ok := m.replayVec[n]; ok {
				if v, ok := new(big.Int).SetString(s, 10); ok {
					u = v.Uint64()
				}
			}
			t := m.c.BVConst(64, u)
			m.inputs = append(m.inputs, inputRec{Name: n, Kind: "i64", Term: t, Conc: int64(u)})
			return t
		}
		v := m.c.Var(n, smt.IntSort)
		m.inputs = append(m.inputs, inputRec{Name: n, Kind: "int", Term: v})
		lo := m.c.IntConst(new(big.Int).Neg(new(big.Int).Lsh(big.NewInt(1), 63)))
		hi := m.c.IntConst(new(big.Int).Lsh(big.NewInt(1), 63))
		m.addPC(m.c.IntCmp(smt.OIntLe, lo, v))
		m.addPC(m.c.IntCmp(smt.OIntLt, v, hi))
		m.c.SetRanged(v, 64)
		return m.c.Int2BV(v, 64)
	})
	c(symPkg+".Bool", func(m *Machine, fr *frame, args []value) value {
		n := m.freshName(m.argStr(args[0]))
		if v, ok := m.replayValue(n, 1); ok {
			t := m.c.Bool(v == 1)
			m.inputs = append(m.inputs, inputRec{Name: n, Kind: "bool", Term: t, Conc: int64(v)})
			return t
		}
		t := m.c.Var(n, smt.BoolSort)
		m.inputs = append(m.inputs, inputRec{Name: n, Kind: "bool", Term: t})
		return t
	})
	c(symPkg+".Bytes", func(m *Machine, fr *frame, args []value) value {
		name := m.argStr(args[0])
		n := m.concInt(args[1], "sym.Bytes length")
		bs := make([]*smt.Term, n)
		base := m.freshName(name)
		for i := range bs {
			bs[i] = m.newBV(fmt.Sprintf("%s[%d]", base, i), 8, "u8")
		}
		s := byteSlice(bs)
		if n == 0 {
			s.a = []value{}
		}
		return s
	})
	c(symPkg+".String", func(m *Machine, fr *frame, args []value) value {
		name := m.argStr(args[0])
		n := m.concInt(args[1], "sym.String length")
		bs := make([]*smt.Term, n)
		base := m.freshName(name)
		for i := range bs {
			bs[i] = m.newBV(fmt.Sprintf("%s[%d]", base, i), 8, "u8")
		}
		return mkStr(bs)
	})
	c(symPkg+".Len", func(m *Machine, fr *frame, args []value) value {
		max := m.concInt(args[1], "sym.Len max")
		return m.intTerm(m.symChoice(m.argStr(args[0]), max+1))
	})
	c(symPkg+".Range", func(m *Machine, fr *frame, args []value) value {
		lo := m.concInt(args[1], "sym.Range lo")
		hi := m.concInt(args[2], "sym.Range hi")
		if hi < lo {
			panic(pathAbort{"assume", "empty sym.Range"})
		}
		return m.intTerm(lo + m.symChoice(m.argStr(args[0]), hi-lo+1))
	})
	c(symPkg+".Choose", func(m *Machine, fr *frame, args []value) value {
		k := m.concInt(args[1], "sym.Choose k")
		return m.intTerm(m.symChoice(m.argStr(args[0]), k))
	})
	c(symPkg+".Param", func(m *Machine, fr *frame, args []value) value {
		name := m.argStr(args[0])
		def := m.concInt(args[1], "sym.Param default")
		if v, ok := m.params[name]; ok {
			def = int(v)
		}
		m.inputs = append(m.inputs, inputRec{Name: "param:" + name, Kind: "choice", Conc: int64(def)})
		return m.intTerm(def)
	})
	c(symPkg+".Symbolic", func(m *Machine, fr *frame, args []value) value { return m.c.Bool(!m.concrete) })
	c(symPkg+".Assume", func(m *Machine, fr *frame, args []value) value {
		t := args[0].(*smt.Term)
		if t.IsTrue() {
			return nil
		}
		if t.IsFalse() {
			panic(pathAbort{"assume", "assumption false"})
		}
		if m.checkSat(t) == smt.Unsat {
			panic(pathAbort{"assume", "assumption infeasible"})
		}
		m.addPC(t)
		return nil
	})
	c(symPkg+".Assert", func(m *Machine, fr *frame, args []value) value {
		m.assert(fr, args[0].(*smt.Term), m.argStr(args[1]))
		return nil
	})
	c(symPkg+".Reach", func(m *Machine, fr *frame, args []value) value {
		m.path.Labels = append(m.path.Labels, m.argStr(args[0]))
		return nil
	})
	c(symPkg+".Observe", func(m *Machine, fr *frame, args []value) value {
		name := m.argStr(args[0])
		m.path.Observes = append(m.path.Observes, name+"="+m.render(args[1]))
		return nil
	})
	c(symPkg+".UF", func(m *Machine, fr *frame, args []value) value {
		// UF(name string, outLen int, args ...[]byte) []byte
		name := m.argStr(args[0])
		outLen := m.concInt(args[1], "UF outLen")
		var in []*smt.Term
		var lens []string
		for _, a := range args[2].(sliceV).elems() {
			bs := m.bytesOf(a)
			lens = append(lens, fmt.Sprint(len(bs)))
			in = append(in, bs...)
		}
		fname := fmt.Sprintf("uf_%s_%s_%d", name, strings.Join(lens, "_"), outLen)
		if len(in) == 0 {
			t := m.c.App(fname+"_k", smt.BV(8*outLen))
			return byteSlice(m.splitBytes(t))
		}
		if cb, ok := allConst(in); ok && m.concrete {
			// concrete mode: same deterministic function as the native sym.UF
			d := nativeUF(name, lens, cb, outLen)
			return m.constBytes(d)
		}
		t := m.c.App(fname, smt.BV(8*outLen), m.concat(in))
		return byteSlice(m.splitBytes(t))
	})
	c(symPkg+".BigZ", func(m *Machine, fr *frame, args []value) value {
		return m.newBigZVar(m.argStr(args[0]))
	})
	c(symPkg+".And", func(m *Machine, fr *frame, args []value) value {
		r := m.c.True
		for _, a := range args[0].(sliceV).elems() {
			r = m.c.And(r, a.(*smt.Term))
		}
		return r
	})
	c(symPkg+".Or", func(m *Machine, fr *frame, args []value) value {
		r := m.c.False
		for _, a := range args[0].(sliceV).elems() {
			r = m.c.Or(r, a.(*smt.Term))
		}
		return r
	})
	c(symPkg+".Implies", func(m *Machine, fr *frame, args []value) value {
		return m.c.Implies(args[0].(*smt.Term), args[1].(*smt.Term))
	})
	c(symPkg+".Iff", func(m *Machine, fr *frame, args []value) value {
		return m.c.Eq(args[0].(*smt.Term), args[1].(*smt.Term))
	})
	c(symPkg+".Option", func(m *Machine, fr *frame, args []value) value {
		if m.extra == nil {
			m.extra = map[string]interface{}{}
		}
		m.extra["opt:"+m.argStr(args[0])] = args[1].(*smt.Term).IsTrue()
		return nil
	})
	c(symPkg+".Fail", func(m *Machine, fr *frame, args []value) value {
		m.assert(fr, m.c.False, m.argStr(args[0]))
		return nil
	})

	registerStdIntrinsics(c)
	registerBigIntrinsics(c)
	registerReflectIntrinsics(c)
	registerCryptoIntrinsics(c)
	return r
}

func nativeUF(name string, lens []string, in []byte, outLen int) []byte {
	h := sha256.New()
	h.Write([]byte(name))
	h.Write([]byte(strings.Join(lens, "_")))
	h.Write(in)
	var out []byte
	seed := h.Sum(nil)
	for len(out) < outLen {
		out = append(out, seed...)
		s := sha256.Sum256(seed)
		seed = s[:]
	}
	return out[:outLen]
}

// assert discharges an obligation with the solver.
func (m *Machine) assert(fr *frame, t *smt.Term, msg string) {
	if m.inInit > 0 {
		return
	}
	m.path.Obligations++
	if t.IsTrue() {
		m.path.Discharged++
		m.path.Trivial++
		return
	}
	hname := "?"
	for f := fr; f != nil; f = f.caller {
		if f.fn != nil && strings.HasPrefix(f.fn.Name(), "VH_") {
			hname = f.fn.Name()
		}
	}
	neg := m.c.Not(t)
	m.flushPC()
	r := m.solver.CheckSat(m.c, neg)
	m.path.Queries++
	switch r {
	case smt.Unsat:
		m.path.Discharged++
		m.addPC(t)
		return
	case smt.Unknown:
		m.path.Inconclusive = append(m.path.Inconclusive, "solver unknown on assertion: "+msg)
		m.addPC(t)
		return
	}
	m.realiseHashes()
	model, ok := m.readModel()
	m.solver.PopModel()
	if !ok {
		m.path.Inconclusive = append(m.path.Inconclusive, "sat but no model on assertion: "+msg)
	} else {
		m.path.Violations = append(m.path.Violations, Violation{
			Harness: hname, Kind: "assert", Msg: msg, Model: model,
			Decisions: append([]int(nil), m.decisions...), Labels: append([]string(nil), m.path.Labels...),
		})
	}
	// continue under the assumption that the assertion holds (to find independent violations)
	if t.IsFalse() || m.checkSat(t) == smt.Unsat {
		panic(pathAbort{"violation-stop", "assertion fails on every input of this path: " + msg})
	}
	m.addPC(t)
}

// render gives a printable form of a value (concrete parts exact).
func (m *Machine) render(v value) string {
	switch v := v.(type) {
	case *smt.Term:
		if v.IsConst() {
			if v.S.K == smt.KBool {
				return fmt.Sprint(v.V == 1)
			}
			return smt.ConstBig(v).String()
		}
		return "<sym>"
	case strV:
		if v.concrete() {
			return fmt.Sprintf("%q", v.s)
		}
		return "<symstr>"
	case sliceV:
		if v.isNil {
			return "nil"
		}
		var ps []string
		for _, e := range v.elems() {
			ps = append(ps, m.render(e))
		}
		return "[" + strings.Join(ps, " ") + "]"
	case array:
		var ps []string
		for _, e := range v {
			ps = append(ps, m.render(e))
		}
		return "[" + strings.Join(ps, " ") + "]"
	case structure:
		var ps []string
		for _, e := range v {
			ps = append(ps, m.render(e))
		}
		return "{" + strings.Join(ps, " ") + "}"
	case iface:
		if v.t == nil {
			return "nil"
		}
		return m.render(v.v)
	case *value:
		if v == nil {
			return "nil"
		}
		return "&" + m.render(*v)
	case float64:
		return fmt.Sprint(v)
	}
	return fmt.Sprintf("<%T>", v)
}

// ---------------------------------------------------------------

// blackhole is a value whose every method is a no-op returning zero values
// (used for loggers and metrics).
type blackhole struct {
	it types.Type
}

func (b *blackhole) method(f *types.Func) func(m *Machine, fr *frame, args []value) value {
	return func(m *Machine, fr *frame, args []value) value {
		sig := f.Type().(*types.Signature)
		res := sig.Results()
		mk := func(t types.Type) value {
			if b.it != nil && types.Identical(t, b.it) {
				return iface{t: b.it, v: b}
			}
			return m.zero(t)
		}
		switch res.Len() {
		case 0:
			return nil
		case 1:
			return mk(res.At(0).Type())
		}
		tu := make(tuple, res.Len())
		for i := range tu {
			tu[i] = mk(res.At(i).Type())
		}
		return tu
	}
}

func (m *Machine) blackholeFor(fn *ssa.Function) value {
	t := fn.Signature.Results().At(0).Type()
	return iface{t: t, v: &blackhole{it: t}}
}

func registerStdIntrinsics(c func(string, intrinsicImpl)) {
	nop := func(m *Machine, fr *frame, args []value) value { return nil }
	zeroRes := func(m *Machine, fr *frame, args []value) value { return m.zeroResult(fr.fn) }

	// ---- sync ----
	for _, n := range []string{
		"(*sync.Mutex).Lock", "(*sync.Mutex).Unlock", "(*sync.RWMutex).Lock", "(*sync.RWMutex).Unlock",
		"(*sync.RWMutex).RLock", "(*sync.RWMutex).RUnlock", "(*sync.WaitGroup).Add", "(*sync.WaitGroup).Done",
		"(*sync.WaitGroup).Wait", "(*sync.Pool).Put", "(*sync.Cond).Signal", "(*sync.Cond).Broadcast",
		"runtime.GC", "runtime.Gosched", "runtime.SetFinalizer", "runtime.KeepAlive", "time.Sleep",
		"runtime.LockOSThread", "runtime.UnlockOSThread", "os.Exit",
	} {
		c(n, nop)
	}
	c("(*sync.Mutex).TryLock", func(m *Machine, fr *frame, args []value) value { return m.c.True })
	c("(*sync.Cond).Wait", func(m *Machine, fr *frame, args []value) value {
		panic(pathAbort{"unsupported", "sync.Cond.Wait (goroutine scheduling is not modelled)"})
	})
	c("(*sync.Pool).Get", func(m *Machine, fr *frame, args []value) value {
		p := args[0].(*value)
		st := (*p).(structure)
		// last field is New func() any
		nf := st[len(st)-1]
		switch f := nf.(type) {
		case *ssa.Function:
			if f != nil {
				return m.call(fr, 0, f, nil)
			}
		case *closure:
			if f != nil {
				return m.call(fr, 0, f, nil)
			}
		}
		return iface{}
	})
	// ---- sync/atomic ----
	for _, ty := range []string{"Int32", "Int64", "Uint32", "Uint64", "Uintptr", "Pointer"} {
		c("sync/atomic.Load"+ty, func(m *Machine, fr *frame, args []value) value { return m.load(args[0]) })
		c("sync/atomic.Store"+ty, func(m *Machine, fr *frame, args []value) value { m.store(args[0], args[1]); return nil })
		c("sync/atomic.Swap"+ty, func(m *Machine, fr *frame, args []value) value {
			old := m.load(args[0])
			m.store(args[0], args[1])
			return old
		})
		c("sync/atomic.CompareAndSwap"+ty, func(m *Machine, fr *frame, args []value) value {
			old := m.load(args[0])
			var eq *smt.Term
			if ot, ok := old.(*smt.Term); ok {
				eq = m.c.Eq(ot, args[1].(*smt.Term))
			} else {
				eq = m.c.Bool(old == args[1])
			}
			if m.branch(eq) {
				m.store(args[0], args[2])
				return m.c.True
			}
			return m.c.False
		})
		if ty != "Pointer" {
			c("sync/atomic.Add"+ty, func(m *Machine, fr *frame, args []value) value {
				nv := m.c.BvBin(smt.OBvAdd, m.load(args[0]).(*smt.Term), args[1].(*smt.Term))
				m.store(args[0], nv)
				return nv
			})
			c("sync/atomic.And"+ty, func(m *Machine, fr *frame, args []value) value {
				old := m.load(args[0]).(*smt.Term)
				m.store(args[0], m.c.BvBin(smt.OBvAnd, old, args[1].(*smt.Term)))
				return old
			})
			c("sync/atomic.Or"+ty, func(m *Machine, fr *frame, args []value) value {
				old := m.load(args[0]).(*smt.Term)
				m.store(args[0], m.c.BvBin(smt.OBvOr, old, args[1].(*smt.Term)))
				return old
			})
		}
	}
	c("(*sync/atomic.Value).Load", func(m *Machine, fr *frame, args []value) value {
		st := (*args[0].(*value)).(structure)
		return st[0]
	})
	c("(*sync/atomic.Value).Store", func(m *Machine, fr *frame, args []value) value {
		st := (*args[0].(*value)).(structure)
		st[0] = args[1]
		return nil
	})
	// ---- runtime / os / time ----
	c("runtime.Callers", func(m *Machine, fr *frame, args []value) value { return m.intTerm(0) })
	c("runtime.Caller", func(m *Machine, fr *frame, args []value) value {
		return tuple{m.c.BVConst(64, 0), strV{}, m.intTerm(0), m.c.False}
	})
	c("runtime.NumCPU", func(m *Machine, fr *frame, args []value) value { return m.intTerm(4) })
	c("runtime.GOMAXPROCS", func(m *Machine, fr *frame, args []value) value { return m.intTerm(4) })
	c("runtime.NumGoroutine", func(m *Machine, fr *frame, args []value) value { return m.intTerm(1) })
	c("runtime/debug.Stack", func(m *Machine, fr *frame, args []value) value { return nilSlice })
	c("runtime/debug.PrintStack", nop)
	c("os.Getenv", func(m *Machine, fr *frame, args []value) value { return strV{} })
	c("os.LookupEnv", func(m *Machine, fr *frame, args []value) value { return tuple{strV{}, m.c.False} })
	c("os.Getpid", func(m *Machine, fr *frame, args []value) value { return m.intTerm(4242) })
	c("os.Hostname", func(m *Machine, fr *frame, args []value) value { return tuple{strV{s: "host"}, iface{}} })
	c("time.now", func(m *Machine, fr *frame, args []value) value {
		m.clock += 1000
		return tuple{m.c.BVConst(64, uint64(1_700_000_000+m.clock/1_000_000_000)), m.c.BVConst(32, uint64(m.clock%1_000_000_000)), m.c.BVConst(64, uint64(m.clock))}
	})
	c("time.runtimeNano", func(m *Machine, fr *frame, args []value) value {
		m.clock += 1000
		return m.c.BVConst(64, uint64(m.clock))
	})
	c("time.After", func(m *Machine, fr *frame, args []value) value {
		// a timer channel: it fires exactly when a select would otherwise block (no other case ready)
		return &chanV{cap: 1, timer: true}
	})
	c("time.AfterFunc", func(m *Machine, fr *frame, args []value) value {
		// timer never fires unless the harness fires it
		var v value = m.zero(deref(fr.fn.Signature.Results().At(0).Type()))
		m.timers = append(m.timers, args[1])
		return &v
	})
	c("(*time.Timer).Stop", func(m *Machine, fr *frame, args []value) value { return m.c.True })
	c("(*time.Timer).Reset", func(m *Machine, fr *frame, args []value) value { return m.c.True })
	c("(*time.Ticker).Stop", nop)
	// ---- fmt / log: opaque ----
	fmtS := func(m *Machine, fr *frame, args []value) value {
		if s, ok := args[0].(strV); ok && s.concrete() {
			// all-concrete basic arguments: format for real (file names, keys)
			if va, ok := args[1].(sliceV); ok {
				var nat []interface{}
				good := true
				for _, a := range va.elems() {
					n, ok := m.nativeBasic(a)
					if !ok {
						good = false
						break
					}
					nat = append(nat, n)
				}
				if good {
					return strV{s: fmt.Sprintf(s.s, nat...)}
				}
			}
			return strV{s: "<fmt:" + s.s + ">"}
		}
		return strV{s: "<fmt>"}
	}
	c("fmt.Sprintf", fmtS)
	c("fmt.Sprint", func(m *Machine, fr *frame, args []value) value { return strV{s: "<fmt.Sprint>"} })
	c("fmt.Sprintln", func(m *Machine, fr *frame, args []value) value { return strV{s: "<fmt.Sprintln>"} })
	c("fmt.Errorf", func(m *Machine, fr *frame, args []value) value {
		f := args[0].(strV)
		msg := "<fmt.Errorf>"
		if f.concrete() {
			msg = "<fmt.Errorf:" + f.s + ">"
		}
		// %w wrapping: keep the wrapped error reachable for errors.Is/As
		if f.concrete() && strings.Contains(f.s, "%w") {
			for _, a := range args[1].(sliceV).elems() {
				if it, ok := a.(iface); ok && it.t != nil {
					if types.Implements(it.t, errorIface) || types.Implements(types.NewPointer(it.t), errorIface) {
						if fp := m.prog.ImportedPackage("fmt"); fp != nil {
							if wt := fp.Type("wrapError"); wt != nil {
								var v value = structure{strV{s: msg}, it}
								return iface{t: types.NewPointer(wt.Object().Type()), v: &v}
							}
						}
					}
				}
			}
		}
		return m.errString(msg)
	})
	for _, n := range []string{"fmt.Printf", "fmt.Println", "fmt.Print", "fmt.Fprintf", "fmt.Fprintln", "fmt.Fprint"} {
		c(n, func(m *Machine, fr *frame, args []value) value { return tuple{m.intTerm(0), iface{}} })
	}
	for _, n := range []string{"log.Printf", "log.Println", "log.Print"} {
		c(n, nop)
	}
	for _, n := range []string{"log.Fatalf", "log.Fatal", "log.Fatalln", "log.Panicf", "log.Panic", "log.Panicln"} {
		name := n
		c(n, func(m *Machine, fr *frame, args []value) value {
			panic(targetPanic{m.errString(name + " called")})
		})
	}
	// goloop logger: blackhole
	glog := "github.com/icon-project/goloop/common/log."
	for _, n := range []string{"New", "GlobalLogger", "WithFields"} {
		c(glog+n, func(m *Machine, fr *frame, args []value) value { return m.blackholeFor(fr.fn) })
	}
	for _, n := range []string{"Trace", "Tracef", "Traceln", "Debug", "Debugf", "Debugln", "Info", "Infof", "Infoln", "Print", "Printf", "Println",
		"Warn", "Warnf", "Warnln", "Error", "Errorf", "Errorln", "SetGlobalLogger", "Must"} {
		c(glog+n, nop)
	}
	for _, n := range []string{"Panic", "Panicf", "Panicln", "Fatal", "Fatalf", "Fatalln"} {
		name := n
		c(glog+n, func(m *Machine, fr *frame, args []value) value {
			panic(targetPanic{m.errString("log." + name + " called")})
		})
	}
	// metrics (opencensus): never the subject
	for _, n := range []string{"OnHeight", "OnRound"} {
		c("(*github.com/icon-project/goloop/server/metric.ConsensusMetric)."+n, nop)
	}
	c("go.opencensus.io/stats.Record", nop)
	// pkg/errors stack capture
	c("github.com/pkg/errors.callers", zeroRes)
	// ---- internal/bytealg & friends ----
	idxByte := func(m *Machine, fr *frame, args []value) value {
		bs := m.bytesOf(args[0])
		b := args[1].(*smt.Term)
		r := m.c.BVConst(64, ^uint64(0))
		for i := len(bs) - 1; i >= 0; i-- {
			r = m.c.Ite(m.c.Eq(bs[i], b), m.c.BVConst(64, uint64(i)), r)
		}
		return r
	}
	c("internal/bytealg.IndexByte", idxByte)
	c("internal/bytealg.IndexByteString", idxByte)
	c("bytes.IndexByte", idxByte)
	c("strings.IndexByte", idxByte)
	cnt := func(m *Machine, fr *frame, args []value) value {
		bs := m.bytesOf(args[0])
		b := args[1].(*smt.Term)
		r := m.c.BVConst(64, 0)
		for _, x := range bs {
			r = m.c.BvBin(smt.OBvAdd, r, m.c.Ite(m.c.Eq(x, b), m.c.BVConst(64, 1), m.c.BVConst(64, 0)))
		}
		return r
	}
	c("internal/bytealg.Count", cnt)
	c("internal/bytealg.CountString", cnt)
	c("internal/bytealg.Equal", func(m *Machine, fr *frame, args []value) value {
		a, b := m.bytesOf(args[0]), m.bytesOf(args[1])
		if len(a) != len(b) {
			return m.c.False
		}
		return m.seqEq(a, b)
	})
	bcmp := func(m *Machine, fr *frame, args []value) value {
		a, b := mkStr(m.bytesOf(args[0])), mkStr(m.bytesOf(args[1]))
		lt := m.strLess(a, b)
		eq := m.strEq(a, b)
		return m.c.Ite(lt, m.c.BVConst(64, ^uint64(0)), m.c.Ite(eq, m.c.BVConst(64, 0), m.c.BVConst(64, 1)))
	}
	c("internal/bytealg.Compare", bcmp)
	c("bytes.Compare", bcmp)
	c("strings.Compare", bcmp)
	c("internal/bytealg.CompareString", bcmp)
	c("internal/bytealg.MakeNoZero", func(m *Machine, fr *frame, args []value) value {
		n := m.concInt(args[0], "MakeNoZero")
		a := make([]value, n)
		for i := range a {
			a[i] = m.c.BVConst(8, 0)
		}
		return sliceV{a: a, n: n}
	})
	c("internal/abi.NoEscape", func(m *Machine, fr *frame, args []value) value { return args[0] })
	c("internal/abi.Escape", func(m *Machine, fr *frame, args []value) value { return args[0] })
	c("internal/race.Enabled", func(m *Machine, fr *frame, args []value) value { return m.c.False })
	c("internal/godebug.(*Setting).Value", func(m *Machine, fr *frame, args []value) value { return strV{} })
	c("(*internal/godebug.Setting).Value", func(m *Machine, fr *frame, args []value) value { return strV{} })
	c("(*internal/godebug.Setting).IncNonDefault", nop)
	c("(*strings.Builder).copyCheck", nop)
	// math/bits: branch-free terms
	c("math/bits.Len64", func(m *Machine, fr *frame, args []value) value { return m.bitLen(args[0].(*smt.Term)) })
	c("math/bits.Len32", func(m *Machine, fr *frame, args []value) value { return m.bitLen(args[0].(*smt.Term)) })
	c("math/bits.Len16", func(m *Machine, fr *frame, args []value) value { return m.bitLen(args[0].(*smt.Term)) })
	c("math/bits.Len8", func(m *Machine, fr *frame, args []value) value { return m.bitLen(args[0].(*smt.Term)) })
	c("math/bits.Len", func(m *Machine, fr *frame, args []value) value { return m.bitLen(args[0].(*smt.Term)) })
	c("math/bits.LeadingZeros64", func(m *Machine, fr *frame, args []value) value {
		return m.c.BvBin(smt.OBvSub, m.c.BVConst(64, 64), m.bitLen(args[0].(*smt.Term)))
	})
	c("math/bits.LeadingZeros", func(m *Machine, fr *frame, args []value) value {
		return m.c.BvBin(smt.OBvSub, m.c.BVConst(64, 64), m.bitLen(args[0].(*smt.Term)))
	})
	tz := func(m *Machine, fr *frame, args []value) value {
		x := args[0].(*smt.Term)
		w := x.S.W
		r := m.c.BVConst(64, uint64(w))
		for i := w - 1; i >= 0; i-- {
			bit := m.c.Extract(i, i, x)
			r = m.c.Ite(m.c.Eq(bit, m.c.BVConst(1, 1)), m.c.BVConst(64, uint64(i)), r)
		}
		return r
	}
	c("math/bits.TrailingZeros64", tz)
	c("math/bits.TrailingZeros32", tz)
	c("math/bits.TrailingZeros", tz)
	c("math/bits.TrailingZeros8", tz)
	c("math/bits.TrailingZeros16", tz)
	// ---- hashes ----
	c("github.com/icon-project/goloop/common/crypto.SHA3Sum256", func(m *Machine, fr *frame, args []value) value {
		out := m.hashModel("sha3_256", 32, m.bytesOf(args[0]), func(b []byte) []byte { d := sha3.Sum256(b); return d[:] })
		return byteSlice(out)
	})
	c("golang.org/x/crypto/sha3.Sum256", func(m *Machine, fr *frame, args []value) value {
		out := m.hashModel("sha3_256", 32, m.bytesOf(args[0]), func(b []byte) []byte { d := sha3.Sum256(b); return d[:] })
		a := make(array, 32)
		for i := range a {
			a[i] = out[i]
		}
		return a
	})
	c("github.com/icon-project/goloop/common/crypto.SHASum256", func(m *Machine, fr *frame, args []value) value {
		out := m.hashModel("sha256", 32, m.bytesOf(args[0]), func(b []byte) []byte { d := sha256.Sum256(b); return d[:] })
		return byteSlice(out)
	})
	c("crypto/sha256.Sum256", func(m *Machine, fr *frame, args []value) value {
		out := m.hashModel("sha256", 32, m.bytesOf(args[0]), func(b []byte) []byte { d := sha256.Sum256(b); return d[:] })
		a := make(array, 32)
		for i := range a {
			a[i] = out[i]
		}
		return a
	})
	c("hash/crc32.Checksum", func(m *Machine, fr *frame, args []value) value {
		in := m.bytesOf(args[0])
		if cb, ok := allConst(in); ok {
			// table identity: goloop uses Castagnoli for WAL; decide by the table's first non-zero entry
			poly := m.crcPoly(args[1])
			return m.c.BVConst(32, uint64(crc32.Checksum(cb, crc32.MakeTable(poly))))
		}
		name := fmt.Sprintf("crc32_%d", len(in))
		return m.c.App(name, smt.BV(32), m.concat(in))
	})
	// FNV-1a (64 bit): state' = (state ^ byte) * prime.  The multiplication by
	// the odd prime is modelled as an uninterpreted bijection M (inverse
	// axiom per application); the xor is exact.  sym.Option("fnv.real", true)
	// makes the real code run instead (step lemmas).
	c("(*hash/fnv.sum64a).Write", func(m *Machine, fr *frame, args []value) value {
		if on, _ := m.extra["opt:fnv.real"].(bool); on {
			return declined{}
		}
		p := args[0].(*value)
		if p == nil {
			panic(runtimeErr{"invalid memory address or nil pointer dereference"})
		}
		h := (*p).(*smt.Term)
		data := m.bytesOf(args[1])
		for _, b := range data {
			h = m.fnvMul(m.c.BvBin(smt.OBvXor, h, m.c.ZeroExt(b, 64)))
		}
		*p = h
		return tuple{m.intTerm(len(data)), iface{}}
	})
	// encoding/binary big/little endian fixed-width accessors as concat/extract
	for _, e := range []struct {
		typ string
		big bool
	}{{"bigEndian", true}, {"littleEndian", false}} {
		for _, w := range []int{16, 32, 64} {
			w, isBig := w, e.big
			c(fmt.Sprintf("(encoding/binary.%s).Uint%d", e.typ, w), func(m *Machine, fr *frame, args []value) value {
				bs := m.bytesOf(args[1])
				n := w / 8
				if len(bs) < n {
					panic(runtimeErr{"index out of range (binary.ByteOrder)"})
				}
				var t *smt.Term
				for i := 0; i < n; i++ {
					b := bs[i]
					if !isBig {
						b = bs[n-1-i]
					}
					if t == nil {
						t = b
					} else {
						t = m.c.Concat(t, b)
					}
				}
				return t
			})
			c(fmt.Sprintf("(encoding/binary.%s).PutUint%d", e.typ, w), func(m *Machine, fr *frame, args []value) value {
				sl := args[1].(sliceV)
				n := w / 8
				if sl.n < n {
					panic(runtimeErr{"index out of range (binary.ByteOrder)"})
				}
				v := args[2].(*smt.Term)
				for i := 0; i < n; i++ {
					hi := w - 1 - 8*i
					if !isBig {
						hi = 8*i + 7
					}
					m.store(m.indexAddr(sl, m.intTerm(i)), m.c.Extract(hi, hi-7, v))
				}
				return nil
			})
		}
	}
	c("hash/crc32.MakeTable", func(m *Machine, fr *frame, args []value) value {
		poly := uint32(m.conc(args[0].(*smt.Term), "crc poly"))
		t := crc32.MakeTable(poly)
		a := make(array, 256)
		for i := range a {
			a[i] = m.c.BVConst(32, uint64(t[i]))
		}
		var v value = a
		return &v
	})
	// ---- strings.ToLower/ToUpper on symbolic ASCII strings (the real code forks per character) ----
	caseConv := func(lower bool) intrinsicImpl {
		return func(m *Machine, fr *frame, args []value) value {
			s := args[0].(strV)
			if s.concrete() {
				return declined{}
			}
			cc := m.c
			ascii := cc.True
			for _, b := range s.sym {
				ascii = cc.And(ascii, cc.BvCmp(smt.OBvUlt, b, cc.BVConst(8, 0x80)))
			}
			if !m.branch(ascii) {
				panic(pathAbort{"assume", "non-ASCII symbolic string in strings.ToLower/ToUpper (outside the bound)"})
			}
			out := make([]*smt.Term, len(s.sym))
			for i, b := range s.sym {
				if lower {
					isUp := cc.And(cc.BvCmp(smt.OBvUle, cc.BVConst(8, 'A'), b), cc.BvCmp(smt.OBvUle, b, cc.BVConst(8, 'Z')))
					out[i] = cc.Ite(isUp, cc.BvBin(smt.OBvAdd, b, cc.BVConst(8, 32)), b)
				} else {
					isLo := cc.And(cc.BvCmp(smt.OBvUle, cc.BVConst(8, 'a'), b), cc.BvCmp(smt.OBvUle, b, cc.BVConst(8, 'z')))
					out[i] = cc.Ite(isLo, cc.BvBin(smt.OBvSub, b, cc.BVConst(8, 32)), b)
				}
			}
			return mkStr(out)
		}
	}
	c("strings.ToLower", caseConv(true))
	c("strings.ToUpper", caseConv(false))
	// ---- errors ----
	c("errors.Is", func(m *Machine, fr *frame, args []value) value { return m.errorsIs(fr, args[0].(iface), args[1].(iface)) })
	c("errors.As", func(m *Machine, fr *frame, args []value) value { return m.errorsAs(fr, args[0].(iface), args[1].(iface)) })
	// ---- sort ----
	c("sort.Slice", func(m *Machine, fr *frame, args []value) value { m.sortSlice(fr, args[0], args[1]); return nil })
	c("sort.SliceStable", func(m *Machine, fr *frame, args []value) value { m.sortSlice(fr, args[0], args[1]); return nil })
}

// nativeBasic converts a boxed concrete value of basic type to the native Go value.
func (m *Machine) nativeBasic(a value) (interface{}, bool) {
	it, ok := a.(iface)
	if !ok || it.t == nil {
		return nil, false
	}
	b, ok := it.t.Underlying().(*types.Basic)
	if !ok {
		return nil, false
	}
	switch v := it.v.(type) {
	case strV:
		if v.concrete() && b.Info()&types.IsString != 0 {
			return v.s, true
		}
	case *smt.Term:
		if !v.IsConst() {
			return nil, false
		}
		switch b.Kind() {
		case types.Bool:
			return v.IsTrue(), true
		case types.Int:
			return int(v.Int64()), true
		case types.Int8:
			return int8(v.Int64()), true
		case types.Int16:
			return int16(v.Int64()), true
		case types.Int32:
			return int32(v.Int64()), true
		case types.Int64:
			return v.Int64(), true
		case types.Uint:
			return uint(v.Uint64()), true
		case types.Uint8:
			return uint8(v.Uint64()), true
		case types.Uint16:
			return uint16(v.Uint64()), true
		case types.Uint32:
			return uint32(v.Uint64()), true
		case types.Uint64, types.Uintptr:
			return v.Uint64(), true
		}
	}
	return nil, false
}

var errorIface = types.Universe.Lookup("error").Type().Underlying().(*types.Interface)

func (m *Machine) fnvMul(x *smt.Term) *smt.Term {
	const prime64 = 1099511628211
	c := m.c
	if x.IsConst() {
		r := c.BVConst(64, x.V*prime64)
		if !m.concrete {
			m.addPC(c.Eq(c.App("fnvmul64", smt.BV(64), x), r))
			m.addPC(c.Eq(c.App("fnvmulinv64", smt.BV(64), r), x))
		}
		return r
	}
	c.SetInjective("fnvmul64")
	t := c.App("fnvmul64", smt.BV(64), x)
	m.addPC(c.Eq(c.App("fnvmulinv64", smt.BV(64), t), x))
	return t
}

func (m *Machine) crcPoly(tab value) uint32 {
	p, ok := tab.(*value)
	if !ok || p == nil {
		return crc32.IEEE
	}
	a := (*p).(array)
	e1 := uint32(a[1].(*smt.Term).V)
	for _, poly := range []uint32{crc32.IEEE, crc32.Castagnoli, crc32.Koopman} {
		if crc32.MakeTable(poly)[1] == e1 {
			return poly
		}
	}
	panic(pathAbort{"unsupported", "unknown crc32 table"})
}

func (m *Machine) bitLen(x *smt.Term) *smt.Term {
	w := x.S.W
	r := m.c.BVConst(64, 0)
	for i := 0; i < w; i++ {
		bit := m.c.Extract(i, i, x)
		r = m.c.Ite(m.c.Eq(bit, m.c.BVConst(1, 1)), m.c.BVConst(64, uint64(i+1)), r)
	}
	return r
}

func (m *Machine) callMethod(fr *frame, recv iface, name string, args ...value) (value, bool) {
	if recv.t == nil {
		return nil, false
	}
	ms := m.prog.MethodSets.MethodSet(recv.t)
	for i := 0; i < ms.Len(); i++ {
		if ms.At(i).Obj().Name() == name {
			fn := m.prog.MethodValue(ms.At(i))
			if fn == nil {
				return nil, false
			}
			return m.call(fr, 0, fn, append([]value{recv.v}, args...)), true
		}
	}
	return nil, false
}

func (m *Machine) methodSig(t types.Type, name string) *types.Signature {
	ms := m.prog.MethodSets.MethodSet(t)
	for i := 0; i < ms.Len(); i++ {
		if ms.At(i).Obj().Name() == name {
			return ms.At(i).Type().(*types.Signature)
		}
	}
	return nil
}

func (m *Machine) errorsIs(fr *frame, err, target iface) value {
	if err.t == nil || target.t == nil {
		return m.c.Bool(err.t == nil && target.t == nil)
	}
	comparable := types.Comparable(target.t)
	var walk func(e iface) bool
	walk = func(e iface) bool {
		for {
			if e.t == nil {
				return false
			}
			if comparable && types.Identical(e.t, target.t) {
				if m.branch(m.equals(e.t, e.v, target.v)) {
					return true
				}
			}
			if sig := m.methodSig(e.t, "Is"); sig != nil && sig.Params().Len() == 1 && sig.Results().Len() == 1 && isBool(sig.Results().At(0).Type()) {
				if r, ok := m.callMethod(fr, e, "Is", target); ok {
					if m.branch(r.(*smt.Term)) {
						return true
					}
				}
			}
			sig := m.methodSig(e.t, "Unwrap")
			if sig == nil || sig.Params().Len() != 0 || sig.Results().Len() != 1 {
				return false
			}
			r, _ := m.callMethod(fr, e, "Unwrap")
			switch rv := r.(type) {
			case iface:
				e = rv
			case sliceV:
				for _, x := range rv.elems() {
					if walk(x.(iface)) {
						return true
					}
				}
				return false
			default:
				return false
			}
		}
	}
	return m.c.Bool(walk(err))
}

func (m *Machine) errorsAs(fr *frame, err, target iface) value {
	if target.t == nil {
		panic(targetPanic{m.errString("errors: target cannot be nil")})
	}
	pt, ok := target.t.Underlying().(*types.Pointer)
	if !ok {
		panic(targetPanic{m.errString("errors: target must be a non-nil pointer")})
	}
	tt := pt.Elem()
	var walk func(e iface) bool
	walk = func(e iface) bool {
		for {
			if e.t == nil {
				return false
			}
			if types.AssignableTo(e.t, tt) {
				if _, isI := tt.Underlying().(*types.Interface); isI {
					m.store(target.v, e)
				} else {
					m.store(target.v, e.v)
				}
				return true
			}
			if sig := m.methodSig(e.t, "As"); sig != nil && sig.Params().Len() == 1 {
				if r, ok := m.callMethod(fr, e, "As", target); ok {
					if m.branch(r.(*smt.Term)) {
						return true
					}
				}
			}
			sig := m.methodSig(e.t, "Unwrap")
			if sig == nil || sig.Params().Len() != 0 || sig.Results().Len() != 1 {
				return false
			}
			r, _ := m.callMethod(fr, e, "Unwrap")
			switch rv := r.(type) {
			case iface:
				e = rv
			case sliceV:
				for _, x := range rv.elems() {
					if walk(x.(iface)) {
						return true
					}
				}
				return false
			default:
				return false
			}
		}
	}
	return m.c.Bool(walk(err))
}

// sortSlice: insertion sort (what pdqsort does for n <= 12), calling less(i,j).
func (m *Machine) sortSlice(fr *frame, x value, less value) {
	s := x.(iface).v.(sliceV)
	n := s.n
	if n > 12 {
		panic(pathAbort{"unsupported", "sort.Slice of more than 12 elements (insertion-sort model only)"})
	}
	for i := 1; i < n; i++ {
		for j := i; j > 0; j-- {
			r := m.call(fr, 0, less, []value{m.intTerm(j), m.intTerm(j - 1)}).(*smt.Term)
			if !m.branch(r) {
				break
			}
			s.a[j], s.a[j-1] = s.a[j-1], s.a[j]
		}
	}
}

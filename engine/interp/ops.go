package interp

import (
	"fmt"
	"go/constant"
	"go/token"
	"go/types"
	"math"
	"math/big"
	"sort"
	"strings"
	"unicode/utf8"

	"golang.org/x/tools/go/ssa"

	"verif/engine/smt"
)

func (m *Machine) constValue(c *ssa.Const) value {
	if c.Value == nil {
		return m.zero(c.Type())
	}
	t := c.Type()
	if tp, ok := t.(*types.TypeParam); ok {
		_ = tp
		panic(pathAbort{"unsupported", "const of type parameter"})
	}
	if b, ok := t.Underlying().(*types.Basic); ok {
		switch {
		case b.Info()&types.IsBoolean != 0:
			return m.c.Bool(constant.BoolVal(c.Value))
		case b.Info()&types.IsString != 0:
			if c.Value.Kind() == constant.String {
				return strV{s: constant.StringVal(c.Value)}
			}
			return strV{s: string(rune(c.Int64()))}
		case b.Info()&types.IsInteger != 0:
			w := 64
			if b.Info()&types.IsUntyped == 0 {
				w = m.width(b)
			}
			if isSigned(b) || b.Info()&types.IsUntyped != 0 {
				return m.c.BVConst(w, uint64(c.Int64()))
			}
			return m.c.BVConst(w, c.Uint64())
		case b.Info()&types.IsFloat != 0:
			return c.Float64()
		case b.Info()&types.IsComplex != 0:
			return c.Complex128()
		case b.Kind() == types.UnsafePointer:
			return (*value)(nil)
		}
	}
	panic(fmt.Sprintf("constValue: %s", c))
}

// ---------------------------------------------------------------
// forking

// addPC appends a constraint to the path condition.
func (m *Machine) addPC(t *smt.Term) {
	if t.IsTrue() {
		return
	}
	m.pc = append(m.pc, t)
}

func (m *Machine) flushPC() {
	for ; m.asserted < len(m.pc); m.asserted++ {
		m.solver.Assert(m.c, m.pc[m.asserted])
	}
}

func (m *Machine) checkSat(extra *smt.Term) smt.Result {
	m.flushPC()
	r := m.solver.CheckSat(m.c, extra)
	if r == smt.Sat {
		m.solver.PopModel()
	}
	m.path.Queries++
	return r
}

// branch decides a boolean condition, forking when both sides are feasible.
func (m *Machine) branch(cond *smt.Term) bool {
	if cond.IsConst() {
		return cond.V == 1
	}
	if m.concrete {
		panic("symbolic branch in concrete mode")
	}
	if m.spec > 0 {
		panic(specAbort{})
	}
	pos := len(m.decisions)
	if pos >= m.lim.MaxDecisions {
		panic(pathAbort{"limit", fmt.Sprintf("more than %d decisions on one path", m.lim.MaxDecisions)})
	}
	if pos < len(m.prefix) {
		d := m.prefix[pos]
		m.decisions = append(m.decisions, d)
		if d == 1 {
			m.addPC(cond)
			return true
		}
		m.addPC(m.c.Not(cond))
		return false
	}
	rt := m.checkSat(cond)
	if rt == smt.Unsat {
		// the path condition is satisfiable, so the other side is
		m.decisions = append(m.decisions, 0)
		m.addPC(m.c.Not(cond))
		return false
	}
	rf := m.checkSat(m.c.Not(cond))
	if rt == smt.Unknown || rf == smt.Unknown {
		m.path.UnknownBranches++
	}
	if rf == smt.Unsat {
		m.decisions = append(m.decisions, 1)
		m.addPC(cond)
		return true
	}
	// both feasible: take true now, queue false
	alt := make([]int, pos+1)
	copy(alt, m.decisions)
	alt[pos] = 0
	m.pending = append(m.pending, alt)
	m.decisions = append(m.decisions, 1)
	m.addPC(cond)
	return true
}

// choose forks over n alternatives (all feasible by construction), returning the chosen one.
func (m *Machine) choose(n int) int {
	if n <= 0 {
		panic(pathAbort{"assume", "choose over empty set"})
	}
	if n == 1 {
		return 0
	}
	if m.spec > 0 {
		panic(specAbort{})
	}
	pos := len(m.decisions)
	if pos >= m.lim.MaxDecisions {
		panic(pathAbort{"limit", fmt.Sprintf("more than %d decisions on one path", m.lim.MaxDecisions)})
	}
	if pos < len(m.prefix) {
		d := m.prefix[pos]
		m.decisions = append(m.decisions, d)
		return d
	}
	for i := n - 1; i >= 1; i-- {
		alt := make([]int, pos+1)
		copy(alt, m.decisions)
		alt[pos] = i
		m.pending = append(m.pending, alt)
	}
	m.decisions = append(m.decisions, 0)
	return 0
}

// concretize forks over the feasible values of t (capped).
func (m *Machine) concretize(t *smt.Term, what string) uint64 {
	if t.IsConst() {
		return t.V
	}
	if m.spec > 0 {
		panic(specAbort{})
	}
	pos := len(m.decisions)
	if pos < len(m.prefix) {
		// replay: the decision stores the index into the enumerated list; we need the list again.
		// To stay deterministic the enumeration is repeated.
	}
	vals := m.enumerate(t, m.lim.ConcretCap, what)
	k := m.choose(len(vals))
	v := vals[k]
	m.addPC(m.c.Eq(t, m.c.BVConst(t.S.W, v)))
	return v
}

func (m *Machine) enumerate(t *smt.Term, cap int, what string) []uint64 {
	var vals []uint64
	m.flushPC()
	// enumerate by blocking; deterministic given the solver
	excl := m.c.True
	probe := m.c.Var(fmt.Sprintf("concretize!%d", len(m.decisions)), t.S)
	eq := m.c.Eq(probe, t)
	for {
		r := m.solver.CheckSat(m.c, m.c.And(eq, excl))
		m.path.Queries++
		if r == smt.Unsat {
			break
		}
		if r == smt.Unknown {
			m.solver.PopModel()
			panic(pathAbort{"unknown", "solver unknown while concretizing " + what})
		}
		mv, err := m.solver.Values([]*smt.Term{probe})
		m.solver.PopModel()
		if err != nil {
			panic(pathAbort{"unknown", "no model while concretizing " + what})
		}
		v := mv[probe.Name].V.Uint64()
		vals = append(vals, v)
		if len(vals) > cap {
			panic(pathAbort{"limit", fmt.Sprintf("more than %d feasible values while concretizing %s", cap, what)})
		}
		excl = m.c.And(excl, m.c.Ne(probe, m.c.BVConst(t.S.W, v)))
	}
	if len(vals) == 0 {
		panic(pathAbort{"infeasible", "no feasible value while concretizing " + what})
	}
	sort.Slice(vals, func(i, j int) bool { return vals[i] < vals[j] })
	return vals
}

// ---------------------------------------------------------------
// binary / unary operators

func (m *Machine) binop(op token.Token, t types.Type, x, y value) value {
	c := m.c
	switch xv := x.(type) {
	case *smt.Term:
		yv, ok := y.(*smt.Term)
		if !ok {
			break
		}
		if xv.S.K == smt.KBool {
			switch op {
			case token.EQL:
				return c.Eq(xv, yv)
			case token.NEQ:
				return c.Ne(xv, yv)
			case token.AND, token.LAND:
				return c.And(xv, yv)
			case token.OR, token.LOR:
				return c.Or(xv, yv)
			}
			panic(fmt.Sprintf("bool binop %s", op))
		}
		signed := isSigned(t)
		switch op {
		case token.ADD:
			return c.BvBin(smt.OBvAdd, xv, yv)
		case token.SUB:
			return c.BvBin(smt.OBvSub, xv, yv)
		case token.MUL:
			return c.BvBin(smt.OBvMul, xv, yv)
		case token.QUO, token.REM:
			if !m.branch(c.Ne(yv, c.BVConst(yv.S.W, 0))) {
				panic(runtimeErr{"integer divide by zero"})
			}
			if signed {
				if op == token.QUO {
					return c.BvBin(smt.OBvSDiv, xv, yv)
				}
				return c.BvBin(smt.OBvSRem, xv, yv)
			}
			if op == token.QUO {
				return c.BvBin(smt.OBvUDiv, xv, yv)
			}
			return c.BvBin(smt.OBvURem, xv, yv)
		case token.AND:
			return c.BvBin(smt.OBvAnd, xv, yv)
		case token.OR:
			return c.BvBin(smt.OBvOr, xv, yv)
		case token.XOR:
			return c.BvBin(smt.OBvXor, xv, yv)
		case token.AND_NOT:
			return c.BvBin(smt.OBvAnd, xv, c.BvNot(yv))
		case token.SHL, token.SHR:
			return m.shift(op, signed, xv, yv)
		case token.EQL:
			return c.Eq(xv, yv)
		case token.NEQ:
			return c.Ne(xv, yv)
		case token.LSS:
			if signed {
				return c.BvCmp(smt.OBvSlt, xv, yv)
			}
			return c.BvCmp(smt.OBvUlt, xv, yv)
		case token.LEQ:
			if signed {
				return c.BvCmp(smt.OBvSle, xv, yv)
			}
			return c.BvCmp(smt.OBvUle, xv, yv)
		case token.GTR:
			if signed {
				return c.BvCmp(smt.OBvSlt, yv, xv)
			}
			return c.BvCmp(smt.OBvUlt, yv, xv)
		case token.GEQ:
			if signed {
				return c.BvCmp(smt.OBvSle, yv, xv)
			}
			return c.BvCmp(smt.OBvUle, yv, xv)
		}
		panic(fmt.Sprintf("int binop %s", op))
	case float64:
		yv := y.(float64)
		f32 := false
		if b, ok := t.Underlying().(*types.Basic); ok && b.Kind() == types.Float32 {
			f32 = true
		}
		r := func(v float64) value {
			if f32 {
				return float64(float32(v))
			}
			return v
		}
		switch op {
		case token.ADD:
			return r(xv + yv)
		case token.SUB:
			return r(xv - yv)
		case token.MUL:
			return r(xv * yv)
		case token.QUO:
			return r(xv / yv)
		case token.EQL:
			return c.Bool(xv == yv)
		case token.NEQ:
			return c.Bool(xv != yv)
		case token.LSS:
			return c.Bool(xv < yv)
		case token.LEQ:
			return c.Bool(xv <= yv)
		case token.GTR:
			return c.Bool(xv > yv)
		case token.GEQ:
			return c.Bool(xv >= yv)
		}
	case strV:
		yv := y.(strV)
		switch op {
		case token.ADD:
			if xv.concrete() && yv.concrete() {
				return strV{s: xv.s + yv.s}
			}
			return mkStr(append(append([]*smt.Term{}, m.strBytes(xv)...), m.strBytes(yv)...))
		case token.EQL:
			return m.strEq(xv, yv)
		case token.NEQ:
			return c.Not(m.strEq(xv, yv))
		case token.LSS:
			return m.strLess(xv, yv)
		case token.LEQ:
			return c.Not(m.strLess(yv, xv))
		case token.GTR:
			return m.strLess(yv, xv)
		case token.GEQ:
			return c.Not(m.strLess(xv, yv))
		}
	}
	switch op {
	case token.EQL:
		return m.equals(t, x, y)
	case token.NEQ:
		return c.Not(m.equals(t, x, y))
	}
	panic(fmt.Sprintf("invalid binary op: %T %s %T", x, op, y))
}

// shift implements Go's shift semantics: count is unsigned (or checked >= 0),
// counts >= width give 0 (or sign fill).
func (m *Machine) shift(op token.Token, signed bool, x, y *smt.Term) *smt.Term {
	c := m.c
	w := x.S.W
	// normalise count to width w
	var cnt *smt.Term
	var big *smt.Term // count >= w
	yw := y.S.W
	if yw > w {
		big = c.BvCmp(smt.OBvUle, c.BVConst(yw, uint64(w)), y)
		cnt = c.Extract(w-1, 0, y)
	} else {
		cnt = c.ZeroExt(y, w)
		if w <= 64 && uint64(w) > smt.MaskW(yw) {
			big = c.False
		} else {
			big = c.BvCmp(smt.OBvUle, c.BVConst(w, uint64(w)), cnt)
		}
	}
	switch op {
	case token.SHL:
		return c.Ite(big, c.BVConst(w, 0), c.BvBin(smt.OBvShl, x, cnt))
	case token.SHR:
		if signed {
			fill := c.BvBin(smt.OBvAshr, x, c.BVConst(w, uint64(w-1)))
			return c.Ite(big, fill, c.BvBin(smt.OBvAshr, x, cnt))
		}
		return c.Ite(big, c.BVConst(w, 0), c.BvBin(smt.OBvLshr, x, cnt))
	}
	panic("shift")
}

// equals returns the term for x == y at static type t.
func (m *Machine) equals(t types.Type, x, y value) *smt.Term {
	c := m.c
	switch xv := x.(type) {
	case *smt.Term:
		return c.Eq(xv, y.(*smt.Term))
	case float64:
		return c.Bool(xv == y.(float64))
	case complex128:
		return c.Bool(xv == y.(complex128))
	case strV:
		return m.strEq(xv, y.(strV))
	case *value:
		switch yv := y.(type) {
		case *value:
			return c.Bool(xv == yv)
		case *elemPtr:
			return c.False
		}
	case *elemPtr:
		if yv, ok := y.(*elemPtr); ok {
			return c.Bool(xv == yv)
		}
		return c.False
	case structure:
		yv := y.(structure)
		st := t.Underlying().(*types.Struct)
		r := c.True
		for i := range xv {
			if st.Field(i).Name() == "_" {
				continue
			}
			r = c.And(r, m.equals(st.Field(i).Type(), xv[i], yv[i]))
		}
		return r
	case array:
		yv := y.(array)
		et := t.Underlying().(*types.Array).Elem()
		r := c.True
		for i := range xv {
			r = c.And(r, m.equals(et, xv[i], yv[i]))
		}
		return r
	case iface:
		yv := y.(iface)
		if xv.t == nil || yv.t == nil {
			return c.Bool(xv.t == nil && yv.t == nil)
		}
		if !types.Identical(xv.t, yv.t) {
			return c.False
		}
		if !types.Comparable(xv.t) {
			panic(runtimeErr{"comparing uncomparable type " + typeString(xv.t)})
		}
		return m.equals(xv.t, xv.v, yv.v)
	case sliceV:
		yv := y.(sliceV)
		// only comparison with nil is legal
		return c.Bool(xv.isNil && yv.isNil)
	case *mapV:
		return c.Bool(xv == y.(*mapV))
	case *chanV:
		return c.Bool(xv == y.(*chanV))
	case *ssa.Function:
		switch yv := y.(type) {
		case *ssa.Function:
			return c.Bool(xv == yv)
		case *closure:
			return c.Bool(xv == nil && yv == nil)
		case *intrinsicFn:
			return c.Bool(false)
		}
	case *closure:
		switch yv := y.(type) {
		case *ssa.Function:
			return c.Bool(xv == nil && yv == nil)
		case *closure:
			return c.Bool(xv == yv)
		}
	case *ssa.Builtin:
		return c.False
	case *bigZ:
		return c.Bool(x == y)
	case *rtypeV:
		return c.Bool(x == y)
	case *rval:
		return c.Bool(x == y)
	case nil:
		return c.Bool(y == nil)
	}
	panic(fmt.Sprintf("equals: unsupported %T == %T", x, y))
}

func (m *Machine) unop(instr *ssa.UnOp, x value) value {
	c := m.c
	switch instr.Op {
	case token.ARROW:
		return m.chanRecv(x, instr.CommaOk, instr.Type())
	case token.MUL:
		return m.load(x)
	case token.SUB:
		switch x := x.(type) {
		case *smt.Term:
			return c.BvNeg(x)
		case float64:
			return -x
		}
	case token.NOT:
		return c.Not(x.(*smt.Term))
	case token.XOR:
		return c.BvNot(x.(*smt.Term))
	}
	panic(fmt.Sprintf("invalid unary op %s %T", instr.Op, x))
}

// ---------------------------------------------------------------
// conversions

func (m *Machine) conv(tDst, tSrc types.Type, x value) value {
	c := m.c
	utSrc := tSrc.Underlying()
	utDst := tDst.Underlying()
	if tp, ok := utDst.(*types.TypeParam); ok {
		_ = tp
		panic(pathAbort{"unsupported", "conversion to type parameter"})
	}
	switch utDst.(type) {
	case *types.Pointer, *types.Signature, *types.Interface, *types.Map, *types.Chan, *types.Struct, *types.Array:
		return x
	case *types.Slice:
		// string -> []byte / []rune ; or slice->slice
		if s, ok := x.(strV); ok {
			et := utDst.(*types.Slice).Elem().Underlying().(*types.Basic)
			if et.Kind() == types.Uint8 {
				bs := m.strBytes(s)
				a := make([]value, len(bs))
				for i, b := range bs {
					a[i] = b
				}
				return sliceV{a: a, n: len(a)}
			}
			if !s.concrete() {
				panic(pathAbort{"unsupported", "symbolic string to []rune"})
			}
			var a []value
			for _, r := range s.s {
				a = append(a, c.BVConst(32, uint64(uint32(r))))
			}
			return sliceV{a: a, n: len(a)}
		}
		return x
	}
	bd, ok := utDst.(*types.Basic)
	if !ok {
		panic(fmt.Sprintf("conv to %v", tDst))
	}
	if bd.Kind() == types.UnsafePointer {
		return x
	}
	switch xv := x.(type) {
	case *smt.Term:
		if xv.S.K == smt.KBool {
			return xv
		}
		switch {
		case bd.Info()&types.IsInteger != 0:
			dw := m.width(bd)
			sw := xv.S.W
			if dw == sw {
				return xv
			}
			if dw < sw {
				return c.Extract(dw-1, 0, xv)
			}
			if isSigned(utSrc) {
				return c.SignExt(xv, dw)
			}
			return c.ZeroExt(xv, dw)
		case bd.Info()&types.IsFloat != 0:
			if !xv.IsConst() {
				panic(pathAbort{"unsupported", "symbolic integer to float conversion"})
			}
			var f float64
			if isSigned(utSrc) {
				f = float64(xv.Int64())
			} else {
				f = float64(xv.V)
			}
			if bd.Kind() == types.Float32 {
				f = float64(float32(f))
			}
			return f
		case bd.Info()&types.IsString != 0:
			// integer -> string (rune)
			if !xv.IsConst() {
				// single byte < 0x80 only
				panic(pathAbort{"unsupported", "symbolic rune to string conversion"})
			}
			v := xv.Int64()
			if !isSigned(utSrc) {
				if xv.V > math.MaxInt32 {
					v = utf8.RuneError
				} else {
					v = int64(xv.V)
				}
			}
			if v < 0 || v > utf8.MaxRune {
				v = utf8.RuneError
			}
			return strV{s: string(rune(v))}
		case bd.Kind() == types.UnsafePointer:
			return x
		}
	case float64:
		switch {
		case bd.Info()&types.IsFloat != 0:
			if bd.Kind() == types.Float32 {
				return float64(float32(xv))
			}
			return xv
		case bd.Info()&types.IsInteger != 0:
			w := m.width(bd)
			if isSigned(bd) {
				return c.BVConst(w, uint64(int64(xv)))
			}
			return c.BVConst(w, uint64(xv))
		}
	case strV:
		if bd.Info()&types.IsString != 0 {
			return xv
		}
	case sliceV:
		if bd.Info()&types.IsString != 0 {
			et := utSrc.(*types.Slice).Elem().Underlying().(*types.Basic)
			if et.Kind() == types.Uint8 {
				bs := make([]*smt.Term, xv.n)
				for i, e := range xv.elems() {
					bs[i] = e.(*smt.Term)
				}
				return mkStr(bs)
			}
			var sb strings.Builder
			for _, e := range xv.elems() {
				t := e.(*smt.Term)
				if !t.IsConst() {
					panic(pathAbort{"unsupported", "symbolic []rune to string"})
				}
				sb.WriteRune(rune(int32(t.V)))
			}
			return strV{s: sb.String()}
		}
	case *value, *elemPtr:
		if bd.Kind() == types.Uintptr {
			panic(pathAbort{"unsupported", "pointer to uintptr conversion"})
		}
		return x
	case complex128:
		return xv
	}
	panic(fmt.Sprintf("unsupported conversion: %v -> %v (%T)", tSrc, tDst, x))
}

func (m *Machine) sliceToArrayPointer(tDst types.Type, x value) value {
	s := x.(sliceV)
	n := int(tDst.Underlying().(*types.Pointer).Elem().Underlying().(*types.Array).Len())
	if s.n < n {
		panic(runtimeErr{fmt.Sprintf("cannot convert slice with length %d to array or pointer to array with length %d", s.n, n)})
	}
	if s.isNil {
		return (*value)(nil)
	}
	var v value = array(s.a[:n:n])
	return &v
}

// ---------------------------------------------------------------
// slicing

func (m *Machine) slice(tx types.Type, x, lo, hi, max value) value {
	var l, c int
	var base []value
	var str strV
	isStr := false
	isNilSlice := false
	switch xv := x.(type) {
	case strV:
		isStr = true
		str = xv
		l = xv.length()
		c = l
	case sliceV:
		base = xv.a
		l = xv.n
		c = len(xv.a)
		isNilSlice = xv.isNil
	case *value:
		if xv == nil {
			panic(runtimeErr{"invalid memory address or nil pointer dereference"})
		}
		base = (*xv).(array)
		l = len(base)
		c = l
	default:
		panic(fmt.Sprintf("slice: unexpected %T", x))
	}
	loI := 0
	if lo != nil {
		loI = m.sliceBound(lo, "slice low")
	}
	hiI := l
	if hi != nil {
		hiI = m.sliceBound(hi, "slice high")
	}
	maxI := c
	if max != nil {
		maxI = m.sliceBound(max, "slice max")
	}
	limit := c
	if isStr {
		limit = l
	}
	if loI < 0 || hiI < loI || maxI < hiI || maxI > limit {
		panic(runtimeErr{fmt.Sprintf("slice bounds out of range [%d:%d:%d] with capacity %d", loI, hiI, maxI, limit)})
	}
	if isStr {
		if str.concrete() {
			return strV{s: str.s[loI:hiI]}
		}
		return mkStr(str.sym[loI:hiI])
	}
	if isNilSlice {
		return nilSlice
	}
	return sliceV{a: base[loI:maxI:maxI], n: hiI - loI}
}

func (m *Machine) sliceBound(v value, what string) int {
	t := v.(*smt.Term)
	if t.IsConst() {
		return int(t.Int64())
	}
	// symbolic bound: concretise (forks over feasible values)
	u := m.concretize(t, what)
	w := t.S.W
	if w < 64 {
		return int(sextU(u, w))
	}
	return int(int64(u))
}

func sextU(u uint64, w int) int64 {
	if w < 64 && u&(uint64(1)<<uint(w-1)) != 0 {
		u |= ^uint64(0) << uint(w)
	}
	return int64(u)
}

// ---------------------------------------------------------------
// type assertions

func (m *Machine) typeAssert(instr *ssa.TypeAssert, itf iface) value {
	var v value
	err := ""
	if bh, ok := itf.v.(*blackhole); ok && itf.t != nil {
		_ = bh
		// a blackhole satisfies only interface asserts to its own interface
	}
	if idst, ok := instr.AssertedType.Underlying().(*types.Interface); ok {
		if itf.t == nil {
			err = fmt.Sprintf("interface conversion: interface is nil, not %s", instr.AssertedType)
		} else if meth, _ := types.MissingMethod(itf.t, idst, true); meth != nil {
			err = fmt.Sprintf("interface conversion: %v is not %v: missing method %s", itf.t, idst, meth.Name())
		} else {
			v = itf
		}
	} else if itf.t != nil && types.Identical(itf.t, instr.AssertedType) {
		v = itf.v
	} else {
		err = fmt.Sprintf("interface conversion: interface is %s, not %s", itf.t, instr.AssertedType)
	}
	if err != "" {
		if !instr.CommaOk {
			panic(runtimeErr{err})
		}
		return tuple{m.zero(instr.AssertedType), m.c.False}
	}
	if instr.CommaOk {
		return tuple{v, m.c.True}
	}
	return v
}

// ---------------------------------------------------------------
// builtins

func (m *Machine) callBuiltin(caller *frame, callpos token.Pos, fn *ssa.Builtin, args []value) value {
	c := m.c
	switch fn.Name() {
	case "append":
		if len(args) == 1 {
			return args[0]
		}
		dst := args[0].(sliceV)
		var add []value
		switch s := args[1].(type) {
		case strV:
			for _, b := range m.strBytes(s) {
				add = append(add, b)
			}
		case sliceV:
			add = s.elems()
		}
		if len(add) == 0 {
			return dst
		}
		need := dst.n + len(add)
		if need <= len(dst.a) {
			for i, e := range add {
				dst.a[dst.n+i] = copyVal(e)
			}
			return sliceV{a: dst.a, n: need}
		}
		ncap := 2 * len(dst.a)
		if ncap < need {
			ncap = need
		}
		if ncap < 4 {
			ncap = 4
		}
		na := make([]value, ncap)
		copy(na, dst.elems())
		for i, e := range add {
			na[dst.n+i] = copyVal(e)
		}
		// zero the rest lazily: we need the elem type
		if ncap > need {
			et := fn.Type().(*types.Signature).Results().At(0).Type().Underlying().(*types.Slice).Elem()
			z := m.zero(et)
			for i := need; i < ncap; i++ {
				na[i] = copyVal(z)
			}
		}
		return sliceV{a: na, n: need}
	case "copy":
		dst := args[0].(sliceV)
		var src []value
		switch s := args[1].(type) {
		case strV:
			for _, b := range m.strBytes(s) {
				src = append(src, b)
			}
		case sliceV:
			src = s.elems()
		}
		n := dst.n
		if len(src) < n {
			n = len(src)
		}
		// overlapping copies: go semantics = memmove
		tmp := make([]value, n)
		for i := 0; i < n; i++ {
			tmp[i] = copyVal(src[i])
		}
		copy(dst.a[:n], tmp)
		return m.intTerm(n)
	case "close":
		ch := args[0].(*chanV)
		if ch == nil {
			panic(targetPanic{m.errString("close of nil channel")})
		}
		if ch.closed {
			panic(targetPanic{m.errString("close of closed channel")})
		}
		ch.closed = true
		return nil
	case "delete":
		mp := args[0].(*mapV)
		if mp != nil {
			m.mapDelete(mp, args[1])
		}
		return nil
	case "clear":
		switch x := args[0].(type) {
		case *mapV:
			if x != nil {
				x.entries = nil
				x.index = map[string]int{}
				x.live = 0
				x.allConc = true
			}
		case sliceV:
			et := fn.Type().(*types.Signature).Params().At(0).Type().Underlying().(*types.Slice).Elem()
			for i := range x.elems() {
				x.a[i] = m.zero(et)
			}
		}
		return nil
	case "print", "println":
		return nil
	case "len":
		switch x := args[0].(type) {
		case strV:
			return m.intTerm(x.length())
		case array:
			return m.intTerm(len(x))
		case *value:
			if x == nil {
				// len(*[N]T)(nil) is N, but we cannot know N here without the type
				t := fn.Type().(*types.Signature).Params().At(0).Type().Underlying().(*types.Pointer).Elem().Underlying().(*types.Array)
				return m.intTerm(int(t.Len()))
			}
			return m.intTerm(len((*x).(array)))
		case sliceV:
			return m.intTerm(x.n)
		case *mapV:
			if x == nil {
				return m.intTerm(0)
			}
			return m.intTerm(x.live)
		case *chanV:
			if x == nil {
				return m.intTerm(0)
			}
			return m.intTerm(len(x.buf))
		}
		panic(fmt.Sprintf("len: illegal operand: %T", args[0]))
	case "cap":
		switch x := args[0].(type) {
		case array:
			return m.intTerm(len(x))
		case *value:
			return m.intTerm(len((*x).(array)))
		case sliceV:
			return m.intTerm(len(x.a))
		case *chanV:
			if x == nil {
				return m.intTerm(0)
			}
			return m.intTerm(x.cap)
		}
		panic(fmt.Sprintf("cap: illegal operand: %T", args[0]))
	case "min", "max":
		r := args[0]
		t := fn.Type().(*types.Signature).Params().At(0).Type()
		for _, a := range args[1:] {
			switch rv := r.(type) {
			case *smt.Term:
				av := a.(*smt.Term)
				var lt *smt.Term
				if isSigned(t) {
					lt = c.BvCmp(smt.OBvSlt, av, rv)
				} else {
					lt = c.BvCmp(smt.OBvUlt, av, rv)
				}
				if fn.Name() == "min" {
					r = c.Ite(lt, av, rv)
				} else {
					r = c.Ite(lt, rv, av)
				}
			case float64:
				av := a.(float64)
				if fn.Name() == "min" {
					r = math.Min(rv, av)
				} else {
					r = math.Max(rv, av)
				}
			default:
				panic(pathAbort{"unsupported", "min/max on " + fmt.Sprintf("%T", r)})
			}
		}
		return r
	case "real", "imag", "complex":
		panic(pathAbort{"unsupported", "complex numbers"})
	case "recover":
		return m.doRecover(caller)
	case "ssa:wrapnilchk":
		recv := args[0]
		if p, ok := recv.(*value); ok && p == nil {
			recvType := args[1].(strV).s
			methodName := args[2].(strV).s
			panic(runtimeErr{fmt.Sprintf("value method %s.%s called using nil *%s pointer", recvType, methodName, recvType)})
		}
		return recv
	case "ssa:deferstack":
		return &caller.defers
	// unsafe builtins
	case "String": // unsafe.String(ptr *byte, len)
		n := m.concInt(args[1], "unsafe.String len")
		if n == 0 {
			return strV{}
		}
		p := args[0].(*value)
		es := m.elemsFrom(p, n)
		bs := make([]*smt.Term, n)
		for i := range bs {
			bs[i] = es[i].(*smt.Term)
		}
		return mkStr(bs)
	case "StringData":
		s := args[0].(strV)
		if s.length() == 0 {
			return (*value)(nil)
		}
		a := make([]value, s.length())
		for i, b := range m.strBytes(s) {
			a[i] = b
		}
		m.noteBacking(a)
		return &a[0]
	case "SliceData":
		s := args[0].(sliceV)
		if len(s.a) == 0 {
			return (*value)(nil)
		}
		m.noteBacking(s.a)
		return &s.a[0]
	case "Slice": // unsafe.Slice(ptr, len)
		n := m.concInt(args[1], "unsafe.Slice len")
		p, _ := args[0].(*value)
		if p == nil {
			return nilSlice
		}
		es := m.elemsFrom(p, n)
		return sliceV{a: es[:n:n], n: n}
	case "Add", "Offsetof", "Sizeof", "Alignof":
		panic(pathAbort{"unsupported", "unsafe." + fn.Name()})
	}
	panic(pathAbort{"unsupported", "builtin " + fn.Name()})
}

// unsafe.String/Slice need to go from an element pointer back to its backing
// array; we remember the backings handed out by SliceData/StringData.
func (m *Machine) noteBacking(a []value) {
	if len(a) == 0 {
		return
	}
	if m.extra == nil {
		m.extra = map[string]interface{}{}
	}
	bk, _ := m.extra["backings"].(map[*value][]value)
	if bk == nil {
		bk = map[*value][]value{}
		m.extra["backings"] = bk
	}
	bk[&a[0]] = a
}

func (m *Machine) elemsFrom(p *value, n int) []value {
	bk, _ := m.extra["backings"].(map[*value][]value)
	if a, ok := bk[p]; ok && len(a) >= n {
		return a
	}
	if n == 1 {
		return []value{*p}
	}
	panic(pathAbort{"unsupported", "unsafe pointer arithmetic on unknown backing array"})
}

// ---------------------------------------------------------------
// range

type sliceStrIter struct {
	m   *Machine
	s   strV
	pos int
}

func (it *sliceStrIter) next() tuple {
	c := it.m.c
	if it.pos >= it.s.length() {
		return tuple{c.False, it.m.intTerm(0), c.BVConst(32, 0)}
	}
	if it.s.concrete() {
		r, sz := utf8.DecodeRuneInString(it.s.s[it.pos:])
		p := it.pos
		it.pos += sz
		return tuple{c.True, it.m.intTerm(p), c.BVConst(32, uint64(uint32(r)))}
	}
	b := it.s.sym[it.pos]
	// symbolic strings: only ASCII is supported in range loops
	if !it.m.branch(c.BvCmp(smt.OBvUlt, b, c.BVConst(8, 0x80))) {
		panic(pathAbort{"assume", "non-ASCII byte in range over symbolic string (outside the bound)"})
	}
	p := it.pos
	it.pos++
	return tuple{c.True, it.m.intTerm(p), c.ZeroExt(b, 32)}
}

type mapIter struct {
	m   *Machine
	mp  *mapV
	pos int
}

func (it *mapIter) next() tuple {
	c := it.m.c
	if it.mp != nil {
		for it.pos < len(it.mp.entries) {
			e := it.mp.entries[it.pos]
			it.pos++
			if !e.deleted {
				return tuple{c.True, e.k, copyVal(e.v)}
			}
		}
	}
	return tuple{c.False, nil, nil}
}

func (m *Machine) rangeIter(x value, t types.Type) iter {
	switch x := x.(type) {
	case *mapV:
		return &mapIter{m: m, mp: x}
	case strV:
		return &sliceStrIter{m: m, s: x}
	}
	panic(fmt.Sprintf("cannot range over %T", x))
}

// ---------------------------------------------------------------
// maps

func (m *Machine) makeMap(kt types.Type) *mapV {
	return &mapV{keyT: kt, index: map[string]int{}, allConc: true}
}

// concKey renders a fully concrete key canonically; ok=false if symbolic or unsupported.
func (m *Machine) concKey(k value, sb *strings.Builder) bool {
	switch k := k.(type) {
	case *smt.Term:
		if !k.IsConst() {
			return false
		}
		fmt.Fprintf(sb, "i%d:%x;", k.S.W, k.V)
		return true
	case strV:
		if !k.concrete() {
			return false
		}
		fmt.Fprintf(sb, "s%d:%s;", len(k.s), k.s)
		return true
	case float64:
		fmt.Fprintf(sb, "f%v;", k)
		return true
	case structure:
		sb.WriteString("{")
		for _, f := range k {
			if !m.concKey(f, sb) {
				return false
			}
		}
		sb.WriteString("}")
		return true
	case array:
		sb.WriteString("[")
		for _, f := range k {
			if !m.concKey(f, sb) {
				return false
			}
		}
		sb.WriteString("]")
		return true
	case iface:
		if k.t == nil {
			sb.WriteString("nil;")
			return true
		}
		sb.WriteString("I<" + typeString(k.t) + ">")
		return m.concKey(k.v, sb)
	case *value:
		fmt.Fprintf(sb, "p%p;", k)
		return true
	case *mapV:
		fmt.Fprintf(sb, "m%p;", k)
		return true
	case *chanV:
		fmt.Fprintf(sb, "c%p;", k)
		return true
	case *ssa.Function:
		fmt.Fprintf(sb, "F%p;", k)
		return true
	case *closure:
		fmt.Fprintf(sb, "C%p;", k)
		return true
	case *rtypeV:
		fmt.Fprintf(sb, "T%p;", k)
		return true
	}
	return false
}

func (m *Machine) mapFind(mp *mapV, k value) *mapEntry {
	var sb strings.Builder
	kc := m.concKey(k, &sb)
	if kc && mp.allConc {
		if i, ok := mp.index[sb.String()]; ok {
			return mp.entries[i]
		}
		return nil
	}
	// keys of a map are pairwise distinct under the path condition, so an entry
	// whose key is syntactically the same term is the entry (no forks needed)
	conds := make([]*smt.Term, len(mp.entries))
	for i, e := range mp.entries {
		if e.deleted {
			continue
		}
		conds[i] = m.equals(mp.keyT, e.k, k)
		if conds[i].IsTrue() {
			return e
		}
	}
	for i, e := range mp.entries {
		if e.deleted || conds[i] == nil {
			continue
		}
		if m.branch(conds[i]) {
			return e
		}
	}
	return nil
}

func (m *Machine) mapInsert(mp *mapV, k, v value) {
	if e := m.mapFind(mp, k); e != nil {
		e.v = copyVal(v)
		return
	}
	var sb strings.Builder
	kc := m.concKey(k, &sb)
	e := &mapEntry{k: copyVal(k), v: copyVal(v)}
	mp.entries = append(mp.entries, e)
	mp.live++
	if kc {
		mp.index[sb.String()] = len(mp.entries) - 1
	} else {
		mp.allConc = false
	}
}

func (m *Machine) mapDelete(mp *mapV, k value) {
	if e := m.mapFind(mp, k); e != nil {
		e.deleted = true
		mp.live--
		var sb strings.Builder
		if m.concKey(e.k, &sb) {
			delete(mp.index, sb.String())
		}
	}
}

func (m *Machine) lookup(instr *ssa.Lookup, x, idx value) value {
	switch x := x.(type) {
	case *mapV:
		var v value
		ok := false
		if x != nil {
			if e := m.mapFind(x, idx); e != nil {
				v = copyVal(e.v)
				ok = true
			}
		}
		if !ok {
			v = m.zero(instr.X.Type().Underlying().(*types.Map).Elem())
		}
		if instr.CommaOk {
			return tuple{v, m.c.Bool(ok)}
		}
		return v
	case strV:
		return m.index(x, idx.(*smt.Term))
	}
	panic(fmt.Sprintf("unexpected x type in Lookup: %T", x))
}

// ---------------------------------------------------------------
// channels (sequential model: no blocking)

func (m *Machine) chanSend(ch value, v value) {
	c := ch.(*chanV)
	if c == nil {
		panic(pathAbort{"unsupported", "send on nil channel (blocks forever)"})
	}
	if c.closed {
		panic(targetPanic{m.errString("send on closed channel")})
	}
	if len(c.buf) >= c.cap && c.cap > 0 {
		panic(pathAbort{"unsupported", "channel send would block (goroutine scheduling is not modelled)"})
	}
	// unbuffered channels are treated as capacity-1 mailboxes in the sequential model
	if c.cap == 0 && len(c.buf) >= 1 {
		panic(pathAbort{"unsupported", "unbuffered channel send would block"})
	}
	c.buf = append(c.buf, copyVal(v))
}

func (m *Machine) chanRecv(ch value, commaOk bool, t types.Type) value {
	c := ch.(*chanV)
	if c == nil {
		panic(pathAbort{"unsupported", "receive on nil channel"})
	}
	var et types.Type
	if commaOk {
		et = t.(*types.Tuple).At(0).Type()
	} else {
		et = t
	}
	if len(c.buf) > 0 {
		v := c.buf[0]
		c.buf = c.buf[1:]
		if commaOk {
			return tuple{v, m.c.True}
		}
		return v
	}
	if c.closed {
		if commaOk {
			return tuple{m.zero(et), m.c.False}
		}
		return m.zero(et)
	}
	panic(pathAbort{"unsupported", "channel receive would block (goroutine scheduling is not modelled)"})
}

func (m *Machine) selectOp(instr *ssa.Select, fr *frame) value {
	// pick the first ready case in order; default otherwise
	chosen := -1
	var recv value
	recvOk := false
	for i, st := range instr.States {
		ch, _ := fr.get(st.Chan).(*chanV)
		if ch == nil {
			continue
		}
		if st.Dir == types.RecvOnly {
			if len(ch.buf) > 0 {
				recv = ch.buf[0]
				ch.buf = ch.buf[1:]
				recvOk = true
				chosen = i
				break
			}
			if ch.closed {
				chosen = i
				break
			}
		} else {
			if !ch.closed && (len(ch.buf) < ch.cap || (ch.cap == 0 && len(ch.buf) == 0)) {
				ch.buf = append(ch.buf, copyVal(fr.get(st.Send)))
				chosen = i
				break
			}
		}
	}
	if chosen < 0 && instr.Blocking {
		// nothing else can happen: a pending timer fires
		for i, st := range instr.States {
			ch, _ := fr.get(st.Chan).(*chanV)
			if ch != nil && ch.timer && !ch.fired && st.Dir == types.RecvOnly {
				ch.fired = true
				m.clock += 1_000_000_000
				recv = m.zero(st.Chan.Type().Underlying().(*types.Chan).Elem())
				recvOk = true
				chosen = i
				break
			}
		}
	}
	if chosen < 0 && instr.Blocking {
		panic(pathAbort{"unsupported", "select would block (goroutine scheduling is not modelled)"})
	}
	r := tuple{m.intTerm(chosen), m.c.Bool(recvOk)}
	for i, st := range instr.States {
		if st.Dir == types.RecvOnly {
			var v value
			if i == chosen && recvOk {
				v = recv
			} else {
				v = m.zero(st.Chan.Type().Underlying().(*types.Chan).Elem())
			}
			r = append(r, v)
		}
	}
	return r
}

var _ = big.NewInt

package interp

import (
	"fmt"
	"go/types"
	"strings"

	"golang.org/x/tools/go/ssa"

	"verif/engine/smt"
)

// A model of package reflect over the interpreter's value representation.
// reflect.Value is the 3-slot structure the program sees; slot 0 holds *rval.
// reflect.Type values are iface{t: *reflect.rtype, v: *rtypeV}.

type rval struct {
	t      types.Type
	p      value // pointer to the storage when addressable (or a slice element / pointee)
	v      value // the value itself when not addressable
	canSet bool
	ro     bool // sticky read-only: reached through an unexported (non-embedded) field
	embRO  bool // this value itself is an embedded unexported field (not inherited by its fields)
}

type rtypeV struct {
	t types.Type
}

func (m *Machine) rget(r *rval) value {
	if r.p != nil {
		return m.load(r.p)
	}
	return r.v
}

func (m *Machine) mkRV(r *rval) value {
	if r == nil {
		return structure{(*rval)(nil), (*value)(nil), m.c.BVConst(64, 0)}
	}
	return structure{r, (*value)(nil), m.c.BVConst(64, 0)}
}

func (m *Machine) rvOf(v value) *rval {
	st, ok := v.(structure)
	if !ok || len(st) != 3 {
		panic(fmt.Sprintf("reflect.Value expected, got %T", v))
	}
	r, _ := st[0].(*rval)
	return r
}

func (m *Machine) rvMust(v value, what string) *rval {
	r := m.rvOf(v)
	if r == nil {
		panic(targetPanic{m.errString("reflect: call of " + what + " on zero Value")})
	}
	return r
}

func (m *Machine) rtypeOf(t types.Type) value {
	if t == nil {
		return iface{}
	}
	if m.rtypes == nil {
		m.rtypes = map[string]*rtypeV{}
	}
	key := types.TypeString(t, nil)
	rt, ok := m.rtypes[key]
	if !ok {
		rt = &rtypeV{t: t}
		m.rtypes[key] = rt
	}
	return iface{t: m.rtypeMarker(), v: rt}
}

func (m *Machine) rtypeMarker() types.Type {
	if m.rtypeT != nil {
		return m.rtypeT
	}
	if rp := m.prog.ImportedPackage("reflect"); rp != nil {
		if t := rp.Type("rtype"); t != nil {
			m.rtypeT = types.NewPointer(t.Object().Type())
			return m.rtypeT
		}
	}
	m.rtypeT = types.Typ[types.UnsafePointer]
	return m.rtypeT
}

func kindOf(t types.Type) int {
	switch u := t.Underlying().(type) {
	case *types.Basic:
		switch u.Kind() {
		case types.Bool, types.UntypedBool:
			return 1
		case types.Int, types.UntypedInt:
			return 2
		case types.Int8:
			return 3
		case types.Int16:
			return 4
		case types.Int32, types.UntypedRune:
			return 5
		case types.Int64:
			return 6
		case types.Uint:
			return 7
		case types.Uint8:
			return 8
		case types.Uint16:
			return 9
		case types.Uint32:
			return 10
		case types.Uint64:
			return 11
		case types.Uintptr:
			return 12
		case types.Float32:
			return 13
		case types.Float64, types.UntypedFloat:
			return 14
		case types.Complex64:
			return 15
		case types.Complex128:
			return 16
		case types.String, types.UntypedString:
			return 24
		case types.UnsafePointer:
			return 26
		}
	case *types.Array:
		return 17
	case *types.Chan:
		return 18
	case *types.Signature:
		return 19
	case *types.Interface:
		return 20
	case *types.Map:
		return 21
	case *types.Pointer:
		return 22
	case *types.Slice:
		return 23
	case *types.Struct:
		return 25
	}
	return 0
}

func (m *Machine) kindTerm(k int) *smt.Term { return m.c.BVConst(64, uint64(k)) }

func elemType(t types.Type) types.Type {
	switch u := t.Underlying().(type) {
	case *types.Pointer:
		return u.Elem()
	case *types.Slice:
		return u.Elem()
	case *types.Array:
		return u.Elem()
	case *types.Map:
		return u.Elem()
	case *types.Chan:
		return u.Elem()
	}
	panic(targetPanic{nil})
}

func (m *Machine) structFieldValue(st *types.Struct, i int) value {
	f := st.Field(i)
	pkgPath := ""
	if !f.Exported() && f.Pkg() != nil {
		pkgPath = f.Pkg().Path()
	}
	return structure{
		strV{s: f.Name()},
		strV{s: pkgPath},
		m.rtypeOf(f.Type()),
		strV{s: st.Tag(i)},
		m.c.BVConst(64, uint64(i*8)),
		sliceV{a: []value{m.intTerm(i)}, n: 1},
		m.c.Bool(f.Anonymous()),
	}
}

// rtypeMethod dispatches a reflect.Type interface method on *rtypeV.
func (m *Machine) rtypeMethod(name string) func(m *Machine, fr *frame, args []value) value {
	return func(m *Machine, fr *frame, args []value) value {
		rt := args[0].(*rtypeV)
		t := rt.t
		switch name {
		case "Kind":
			return m.kindTerm(kindOf(t))
		case "Elem":
			return m.rtypeOf(elemType(t))
		case "Key":
			return m.rtypeOf(t.Underlying().(*types.Map).Key())
		case "Len":
			return m.intTerm(int(t.Underlying().(*types.Array).Len()))
		case "NumField":
			return m.intTerm(t.Underlying().(*types.Struct).NumFields())
		case "Field":
			return m.structFieldValue(t.Underlying().(*types.Struct), m.concInt(args[1], "Type.Field index"))
		case "Name":
			if n, ok := t.(*types.Named); ok {
				return strV{s: n.Obj().Name()}
			}
			if b, ok := t.(*types.Basic); ok {
				return strV{s: b.Name()}
			}
			return strV{}
		case "PkgPath":
			if n, ok := t.(*types.Named); ok && n.Obj().Pkg() != nil {
				return strV{s: n.Obj().Pkg().Path()}
			}
			return strV{}
		case "String":
			return strV{s: types.TypeString(t, func(p *types.Package) string { return p.Name() })}
		case "Comparable":
			return m.c.Bool(types.Comparable(t))
		case "NumMethod":
			return m.intTerm(m.prog.MethodSets.MethodSet(t).Len())
		case "Implements":
			u := args[1].(iface).v.(*rtypeV).t
			return m.c.Bool(types.Implements(t, u.Underlying().(*types.Interface)))
		case "AssignableTo":
			u := args[1].(iface).v.(*rtypeV).t
			return m.c.Bool(types.AssignableTo(t, u))
		case "ConvertibleTo":
			u := args[1].(iface).v.(*rtypeV).t
			return m.c.Bool(types.ConvertibleTo(t, u))
		case "Size":
			return m.c.BVConst(64, uint64(m.sizeof(t)))
		case "Bits":
			return m.intTerm(int(m.sizeof(t)) * 8)
		}
		panic(pathAbort{"unsupported", "reflect.Type." + name})
	}
}

func (m *Machine) sizeof(t types.Type) int64 {
	return types.SizesFor("gc", "amd64").Sizeof(t)
}

func isExportedField(st *types.Struct, i int) bool { return st.Field(i).Exported() }

func registerReflectIntrinsics(c func(string, intrinsicImpl)) {
	rv := "(reflect.Value)."
	c("reflect.TypeOf", func(m *Machine, fr *frame, args []value) value {
		return m.rtypeOf(args[0].(iface).t)
	})
	c("reflect.ValueOf", func(m *Machine, fr *frame, args []value) value {
		i := args[0].(iface)
		if i.t == nil {
			return m.mkRV(nil)
		}
		return m.mkRV(&rval{t: i.t, v: i.v})
	})
	c("reflect.Zero", func(m *Machine, fr *frame, args []value) value {
		t := args[0].(iface).v.(*rtypeV).t
		return m.mkRV(&rval{t: t, v: m.zero(t)})
	})
	c("reflect.New", func(m *Machine, fr *frame, args []value) value {
		t := args[0].(iface).v.(*rtypeV).t
		var v value = m.zero(t)
		return m.mkRV(&rval{t: types.NewPointer(t), v: &v})
	})
	c("reflect.PointerTo", func(m *Machine, fr *frame, args []value) value {
		return m.rtypeOf(types.NewPointer(args[0].(iface).v.(*rtypeV).t))
	})
	c("reflect.PtrTo", func(m *Machine, fr *frame, args []value) value {
		return m.rtypeOf(types.NewPointer(args[0].(iface).v.(*rtypeV).t))
	})
	c("reflect.Indirect", func(m *Machine, fr *frame, args []value) value {
		r := m.rvOf(args[0])
		if r == nil || kindOf(r.t) != 22 {
			return args[0]
		}
		return m.rvElem(r)
	})
	c("reflect.MakeSlice", func(m *Machine, fr *frame, args []value) value {
		t := args[0].(iface).v.(*rtypeV).t
		ln := m.concInt(args[1], "reflect.MakeSlice len")
		cp := m.concInt(args[2], "reflect.MakeSlice cap")
		a := make([]value, cp)
		for i := range a {
			a[i] = m.zero(elemType(t))
		}
		return m.mkRV(&rval{t: t, v: sliceV{a: a, n: ln}})
	})
	mkMap := func(m *Machine, fr *frame, args []value) value {
		t := args[0].(iface).v.(*rtypeV).t
		return m.mkRV(&rval{t: t, v: m.makeMap(t.Underlying().(*types.Map).Key())})
	}
	c("reflect.MakeMap", mkMap)
	c("reflect.MakeMapWithSize", mkMap)
	c("reflect.Append", func(m *Machine, fr *frame, args []value) value {
		r := m.rvMust(args[0], "Append")
		s := m.rget(r).(sliceV)
		for _, x := range args[1].(sliceV).elems() {
			xr := m.rvMust(x, "Append")
			ev := m.rconvAssign(elemType(r.t), xr)
			if s.n < len(s.a) {
				s.a[s.n] = copyVal(ev)
				s = sliceV{a: s.a, n: s.n + 1}
			} else {
				nc := 2*len(s.a) + 1
				na := make([]value, nc)
				copy(na, s.elems())
				na[s.n] = copyVal(ev)
				for i := s.n + 1; i < nc; i++ {
					na[i] = m.zero(elemType(r.t))
				}
				s = sliceV{a: na, n: s.n + 1}
			}
		}
		return m.mkRV(&rval{t: r.t, v: s})
	})
	c("reflect.Copy", func(m *Machine, fr *frame, args []value) value {
		d, s := m.rvMust(args[0], "Copy"), m.rvMust(args[1], "Copy")
		de := m.relems(d)
		var se []value
		if isString(s.t) {
			for _, b := range m.strBytes(m.rget(s).(strV)) {
				se = append(se, b)
			}
		} else {
			se = m.relems(s)
		}
		n := len(de)
		if len(se) < n {
			n = len(se)
		}
		tmp := make([]value, n)
		for i := 0; i < n; i++ {
			tmp[i] = copyVal(se[i])
		}
		copy(de[:n], tmp)
		return m.intTerm(n)
	})
	c("reflect.DeepEqual", func(m *Machine, fr *frame, args []value) value {
		return m.deepEqual(args[0], args[1], 0)
	})

	c(rv+"Kind", func(m *Machine, fr *frame, args []value) value {
		r := m.rvOf(args[0])
		if r == nil {
			return m.kindTerm(0)
		}
		return m.kindTerm(kindOf(r.t))
	})
	c(rv+"Type", func(m *Machine, fr *frame, args []value) value {
		return m.rtypeOf(m.rvMust(args[0], "Type").t)
	})
	c(rv+"IsValid", func(m *Machine, fr *frame, args []value) value { return m.c.Bool(m.rvOf(args[0]) != nil) })
	c(rv+"CanAddr", func(m *Machine, fr *frame, args []value) value {
		r := m.rvOf(args[0])
		return m.c.Bool(r != nil && r.p != nil)
	})
	c(rv+"CanSet", func(m *Machine, fr *frame, args []value) value {
		r := m.rvOf(args[0])
		return m.c.Bool(r != nil && r.p != nil && r.canSet && !r.ro && !r.embRO)
	})
	c(rv+"CanInterface", func(m *Machine, fr *frame, args []value) value {
		r := m.rvMust(args[0], "CanInterface")
		return m.c.Bool(!r.ro && !r.embRO)
	})
	c(rv+"Addr", func(m *Machine, fr *frame, args []value) value {
		r := m.rvMust(args[0], "Addr")
		if r.p == nil {
			panic(targetPanic{m.errString("reflect.Value.Addr of unaddressable value")})
		}
		return m.mkRV(&rval{t: types.NewPointer(r.t), v: r.p, ro: r.ro})
	})
	c(rv+"Interface", func(m *Machine, fr *frame, args []value) value {
		r := m.rvMust(args[0], "Interface")
		if r.ro || r.embRO {
			panic(targetPanic{m.errString("reflect.Value.Interface: cannot return value obtained from unexported field or method")})
		}
		v := m.rget(r)
		if _, ok := r.t.Underlying().(*types.Interface); ok {
			return v
		}
		return iface{t: r.t, v: v}
	})
	c(rv+"Elem", func(m *Machine, fr *frame, args []value) value {
		return m.rvElem(m.rvMust(args[0], "Elem"))
	})
	c(rv+"IsNil", func(m *Machine, fr *frame, args []value) value {
		r := m.rvMust(args[0], "IsNil")
		switch v := m.rget(r).(type) {
		case *value:
			return m.c.Bool(v == nil)
		case *elemPtr:
			return m.c.False
		case sliceV:
			return m.c.Bool(v.isNil)
		case *mapV:
			return m.c.Bool(v == nil)
		case iface:
			return m.c.Bool(v.t == nil)
		case *chanV:
			return m.c.Bool(v == nil)
		case *ssa.Function:
			return m.c.Bool(v == nil)
		case *closure:
			return m.c.Bool(v == nil)
		}
		panic(targetPanic{m.errString("reflect: call of reflect.Value.IsNil on " + typeString(r.t) + " Value")})
	})
	c(rv+"IsZero", func(m *Machine, fr *frame, args []value) value {
		r := m.rvMust(args[0], "IsZero")
		return m.deepEqual(iface{t: r.t, v: m.rget(r)}, iface{t: r.t, v: m.zero(r.t)}, 0)
	})
	c(rv+"Len", func(m *Machine, fr *frame, args []value) value {
		r := m.rvMust(args[0], "Len")
		switch v := m.rget(r).(type) {
		case sliceV:
			return m.intTerm(v.n)
		case array:
			return m.intTerm(len(v))
		case strV:
			return m.intTerm(v.length())
		case *mapV:
			if v == nil {
				return m.intTerm(0)
			}
			return m.intTerm(v.live)
		}
		panic(pathAbort{"unsupported", "reflect.Value.Len on " + typeString(r.t)})
	})
	c(rv+"Cap", func(m *Machine, fr *frame, args []value) value {
		r := m.rvMust(args[0], "Cap")
		switch v := m.rget(r).(type) {
		case sliceV:
			return m.intTerm(len(v.a))
		case array:
			return m.intTerm(len(v))
		}
		panic(pathAbort{"unsupported", "reflect.Value.Cap"})
	})
	c(rv+"NumField", func(m *Machine, fr *frame, args []value) value {
		r := m.rvMust(args[0], "NumField")
		return m.intTerm(r.t.Underlying().(*types.Struct).NumFields())
	})
	c(rv+"Field", func(m *Machine, fr *frame, args []value) value {
		r := m.rvMust(args[0], "Field")
		i := m.concInt(args[1], "reflect Field index")
		st := r.t.Underlying().(*types.Struct)
		ft := st.Field(i).Type()
		ro := r.ro
		emb := false
		if !st.Field(i).Exported() {
			if st.Field(i).Anonymous() {
				emb = true
			} else {
				ro = true
			}
		}
		if r.p != nil {
			sp := r.p.(*value)
			return m.mkRV(&rval{t: ft, p: &(*sp).(structure)[i], canSet: r.canSet, ro: ro, embRO: emb})
		}
		return m.mkRV(&rval{t: ft, v: r.v.(structure)[i], ro: ro, embRO: emb})
	})
	c(rv+"Index", func(m *Machine, fr *frame, args []value) value {
		r := m.rvMust(args[0], "Index")
		i := m.concInt(args[1], "reflect Index")
		switch kindOf(r.t) {
		case 23:
			s := m.rget(r).(sliceV)
			if i < 0 || i >= s.n {
				panic(targetPanic{m.errString("reflect: slice index out of range")})
			}
			return m.mkRV(&rval{t: elemType(r.t), p: &s.a[i], canSet: true, ro: r.ro})
		case 17:
			if r.p != nil {
				a := (*(r.p.(*value))).(array)
				if i < 0 || i >= len(a) {
					panic(targetPanic{m.errString("reflect: array index out of range")})
				}
				return m.mkRV(&rval{t: elemType(r.t), p: &a[i], canSet: r.canSet, ro: r.ro})
			}
			a := r.v.(array)
			if i < 0 || i >= len(a) {
				panic(targetPanic{m.errString("reflect: array index out of range")})
			}
			return m.mkRV(&rval{t: elemType(r.t), v: a[i], ro: r.ro})
		case 24:
			s := m.rget(r).(strV)
			return m.mkRV(&rval{t: types.Typ[types.Uint8], v: m.strByte(s, i)})
		}
		panic(pathAbort{"unsupported", "reflect.Value.Index on " + typeString(r.t)})
	})
	c(rv+"Bool", func(m *Machine, fr *frame, args []value) value { return m.rget(m.rvMust(args[0], "Bool")) })
	c(rv+"Int", func(m *Machine, fr *frame, args []value) value {
		t := m.rget(m.rvMust(args[0], "Int")).(*smt.Term)
		return m.c.SignExt(t, 64)
	})
	c(rv+"Uint", func(m *Machine, fr *frame, args []value) value {
		t := m.rget(m.rvMust(args[0], "Uint")).(*smt.Term)
		return m.c.ZeroExt(t, 64)
	})
	c(rv+"String", func(m *Machine, fr *frame, args []value) value {
		r := m.rvOf(args[0])
		if r == nil {
			return strV{s: "<invalid Value>"}
		}
		if s, ok := m.rget(r).(strV); ok {
			return s
		}
		return strV{s: "<" + typeString(r.t) + " Value>"}
	})
	c(rv+"Bytes", func(m *Machine, fr *frame, args []value) value {
		r := m.rvMust(args[0], "Bytes")
		switch v := m.rget(r).(type) {
		case sliceV:
			return v
		case array:
			if r.p != nil {
				a := (*(r.p.(*value))).(array)
				return sliceV{a: a, n: len(a)}
			}
		}
		panic(targetPanic{m.errString("reflect.Value.Bytes of non-byte slice")})
	})
	c(rv+"Pointer", func(m *Machine, fr *frame, args []value) value {
		panic(pathAbort{"unsupported", "reflect.Value.Pointer"})
	})
	setter := func(name string) {
		c(rv+name, func(m *Machine, fr *frame, args []value) value {
			r := m.rvMust(args[0], name)
			if r.p == nil || !r.canSet || r.ro || r.embRO {
				panic(targetPanic{m.errString("reflect: reflect.Value." + name + " using unaddressable or unexported value")})
			}
			v := args[1]
			if t, ok := v.(*smt.Term); ok && t.S.K == smt.KBV {
				w := m.width(r.t)
				if w < t.S.W {
					v = m.c.Extract(w-1, 0, t)
				}
			}
			m.store(r.p, v)
			return nil
		})
	}
	for _, n := range []string{"SetBool", "SetInt", "SetUint", "SetString", "SetBytes"} {
		setter(n)
	}
	c(rv+"Set", func(m *Machine, fr *frame, args []value) value {
		r := m.rvMust(args[0], "Set")
		x := m.rvMust(args[1], "Set")
		if r.p == nil || !r.canSet || r.ro || r.embRO {
			panic(targetPanic{m.errString("reflect: reflect.Value.Set using unaddressable or unexported value")})
		}
		m.store(r.p, m.rconvAssign(r.t, x))
		return nil
	})
	c(rv+"SetLen", func(m *Machine, fr *frame, args []value) value {
		r := m.rvMust(args[0], "SetLen")
		n := m.concInt(args[1], "SetLen")
		s := m.rget(r).(sliceV)
		if n < 0 || n > len(s.a) {
			panic(targetPanic{m.errString("reflect: slice length out of range in SetLen")})
		}
		m.store(r.p, sliceV{a: s.a, n: n})
		return nil
	})
	c(rv+"Slice", func(m *Machine, fr *frame, args []value) value {
		r := m.rvMust(args[0], "Slice")
		lo := m.concInt(args[1], "Slice lo")
		hi := m.concInt(args[2], "Slice hi")
		switch kindOf(r.t) {
		case 23:
			s := m.rget(r).(sliceV)
			if lo < 0 || hi < lo || hi > len(s.a) {
				panic(targetPanic{m.errString("reflect.Value.Slice: slice index out of bounds")})
			}
			return m.mkRV(&rval{t: r.t, v: sliceV{a: s.a[lo:], n: hi - lo}})
		case 17:
			if r.p == nil {
				panic(targetPanic{m.errString("reflect.Value.Slice: slice of unaddressable array")})
			}
			a := (*(r.p.(*value))).(array)
			if lo < 0 || hi < lo || hi > len(a) {
				panic(targetPanic{m.errString("reflect.Value.Slice: slice index out of bounds")})
			}
			return m.mkRV(&rval{t: types.NewSlice(elemType(r.t)), v: sliceV{a: a[lo:], n: hi - lo}})
		case 24:
			s := m.rget(r).(strV)
			return m.mkRV(&rval{t: r.t, v: mkStr(m.strBytes(s)[lo:hi])})
		}
		panic(pathAbort{"unsupported", "reflect.Value.Slice"})
	})
	c(rv+"MapKeys", func(m *Machine, fr *frame, args []value) value {
		r := m.rvMust(args[0], "MapKeys")
		mp := m.rget(r).(*mapV)
		kt := r.t.Underlying().(*types.Map).Key()
		var out []value
		if mp != nil {
			for _, e := range mp.entries {
				if !e.deleted {
					out = append(out, m.mkRV(&rval{t: kt, v: e.k}))
				}
			}
		}
		return sliceV{a: out, n: len(out)}
	})
	c(rv+"MapIndex", func(m *Machine, fr *frame, args []value) value {
		r := m.rvMust(args[0], "MapIndex")
		k := m.rvMust(args[1], "MapIndex")
		mp := m.rget(r).(*mapV)
		if mp == nil {
			return m.mkRV(nil)
		}
		e := m.mapFind(mp, m.rget(k))
		if e == nil {
			return m.mkRV(nil)
		}
		return m.mkRV(&rval{t: elemType(r.t), v: copyVal(e.v)})
	})
	c(rv+"SetMapIndex", func(m *Machine, fr *frame, args []value) value {
		r := m.rvMust(args[0], "SetMapIndex")
		k := m.rvMust(args[1], "SetMapIndex")
		mp := m.rget(r).(*mapV)
		x := m.rvOf(args[2])
		if x == nil {
			m.mapDelete(mp, m.rget(k))
			return nil
		}
		m.mapInsert(mp, m.rget(k), m.rconvAssign(elemType(r.t), x))
		return nil
	})
	c(rv+"Convert", func(m *Machine, fr *frame, args []value) value {
		r := m.rvMust(args[0], "Convert")
		t := args[1].(iface).v.(*rtypeV).t
		return m.mkRV(&rval{t: t, v: m.conv(t, r.t, m.rget(r))})
	})
	c("(reflect.Kind).String", func(m *Machine, fr *frame, args []value) value {
		names := []string{"invalid", "bool", "int", "int8", "int16", "int32", "int64", "uint", "uint8", "uint16", "uint32", "uint64", "uintptr",
			"float32", "float64", "complex64", "complex128", "array", "chan", "func", "interface", "map", "ptr", "slice", "string", "struct", "unsafe.Pointer"}
		k := m.concInt(args[0], "Kind.String")
		if k >= 0 && k < len(names) {
			return strV{s: names[k]}
		}
		return strV{s: "kind?"}
	})
}

// rconvAssign converts x for assignment to a location of type dst (wraps into interfaces).
func (m *Machine) rconvAssign(dst types.Type, x *rval) value {
	v := m.rget(x)
	if _, isI := dst.Underlying().(*types.Interface); isI {
		if _, srcI := x.t.Underlying().(*types.Interface); srcI {
			return v
		}
		return iface{t: x.t, v: v}
	}
	return v
}

func (m *Machine) rvElem(r *rval) value {
	switch kindOf(r.t) {
	case 22:
		p := m.rget(r)
		switch pp := p.(type) {
		case *value:
			if pp == nil {
				return m.mkRV(nil)
			}
		}
		return m.mkRV(&rval{t: elemType(r.t), p: p, canSet: !r.ro, ro: r.ro})
	case 20:
		i := m.rget(r).(iface)
		if i.t == nil {
			return m.mkRV(nil)
		}
		return m.mkRV(&rval{t: i.t, v: i.v, ro: r.ro})
	}
	panic(targetPanic{m.errString("reflect: call of reflect.Value.Elem on " + typeString(r.t) + " Value")})
}

func (m *Machine) relems(r *rval) []value {
	switch v := m.rget(r).(type) {
	case sliceV:
		return v.elems()
	case array:
		if r.p != nil {
			return (*(r.p.(*value))).(array)
		}
		return v
	}
	panic(pathAbort{"unsupported", "reflect elements of " + typeString(r.t)})
}

// deepEqual: reflect.DeepEqual over interpreter values, as a Bool term.
func (m *Machine) deepEqual(x, y value, depth int) *smt.Term {
	c := m.c
	if depth > 40 {
		panic(pathAbort{"limit", "DeepEqual recursion"})
	}
	xi, xok := x.(iface)
	yi, yok := y.(iface)
	if !xok || !yok {
		panic(fmt.Sprintf("deepEqual args %T %T", x, y))
	}
	if xi.t == nil || yi.t == nil {
		return c.Bool(xi.t == nil && yi.t == nil)
	}
	if !types.Identical(xi.t, yi.t) {
		return c.False
	}
	return m.deepEqualT(xi.t, xi.v, yi.v, depth)
}

func (m *Machine) deepEqualT(t types.Type, x, y value, depth int) *smt.Term {
	c := m.c
	if depth > 40 {
		panic(pathAbort{"limit", "DeepEqual recursion"})
	}
	switch u := t.Underlying().(type) {
	case *types.Basic:
		return m.equals(t, x, y)
	case *types.Pointer:
		xp, _ := x.(*value)
		yp, _ := y.(*value)
		if xp == nil || yp == nil {
			return c.Bool(xp == nil && yp == nil)
		}
		if xp == yp {
			return c.True
		}
		return m.deepEqualT(u.Elem(), *xp, *yp, depth+1)
	case *types.Struct:
		xs, ys := x.(structure), y.(structure)
		r := c.True
		for i := range xs {
			r = c.And(r, m.deepEqualT(u.Field(i).Type(), xs[i], ys[i], depth+1))
		}
		return r
	case *types.Array:
		xs, ys := x.(array), y.(array)
		r := c.True
		for i := range xs {
			r = c.And(r, m.deepEqualT(u.Elem(), xs[i], ys[i], depth+1))
		}
		return r
	case *types.Slice:
		xs, ys := x.(sliceV), y.(sliceV)
		if xs.isNil != ys.isNil || xs.n != ys.n {
			return c.False
		}
		r := c.True
		for i := 0; i < xs.n; i++ {
			r = c.And(r, m.deepEqualT(u.Elem(), xs.a[i], ys.a[i], depth+1))
		}
		return r
	case *types.Interface:
		return m.deepEqual(x, y, depth+1)
	case *types.Map:
		xm, ym := x.(*mapV), y.(*mapV)
		if xm == nil || ym == nil {
			return c.Bool(xm == nil && ym == nil)
		}
		if xm.live != ym.live {
			return c.False
		}
		r := c.True
		for _, e := range xm.entries {
			if e.deleted {
				continue
			}
			o := m.mapFind(ym, e.k)
			if o == nil {
				return c.False
			}
			r = c.And(r, m.deepEqualT(u.Elem(), e.v, o.v, depth+1))
		}
		return r
	case *types.Signature:
		return c.Bool(x == nil && y == nil)
	}
	return m.equals(t, x, y)
}

var _ = strings.HasPrefix

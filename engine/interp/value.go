// Package interp is a path-forking symbolic interpreter for go/ssa.
//
// Its skeleton (frame/value layout, instruction dispatch, defer/panic handling)
// follows golang.org/x/tools/go/ssa/interp v0.29.0 (BSD-3-Clause, Copyright
// The Go Authors), which is a concrete interpreter.  Here every scalar is an
// SMT term, branches on non-constant terms fork the path, and run-time checks
// become solver obligations.
package interp

import (
	"fmt"
	"go/types"
	"strings"

	"golang.org/x/tools/go/ssa"

	"verif/engine/smt"
)

type value interface{}

// scalars (bool, intN, uintN, uintptr): *smt.Term
// float32/float64: float64 (concrete only)
// string: strV
// pointer: *value | *elemPtr (symbolic element pointer)
// struct: structure; array: array; slice: sliceV; map: *mapV; chan: *chanV
// interface: iface; func: *ssa.Function | *closure | *ssa.Builtin | *intrinsicFn
// tuple: tuple

type structure []value
type array []value
type tuple []value

type sliceV struct {
	a   []value // backing window: a[:cap]; len = n
	n   int
	isNil bool
}

func (s sliceV) elems() []value { return s.a[:s.n] }
func (s sliceV) capacity() int  { return len(s.a) }

func mkSlice(a []value) sliceV { return sliceV{a: a, n: len(a)} }

var nilSlice = sliceV{isNil: true}

type strV struct {
	s   string      // concrete contents when sym == nil
	sym []*smt.Term // symbolic bytes (BV8) otherwise
}

func (s strV) length() int {
	if s.sym != nil {
		return len(s.sym)
	}
	return len(s.s)
}
func (s strV) concrete() bool { return s.sym == nil }

type iface struct {
	t types.Type // never an interface type; nil for nil interface
	v value
}

type closure struct {
	Fn  *ssa.Function
	Env []value
}

// elemPtr is a pointer to element idx (symbolic) of a scalar array/slice window.
type elemPtr struct {
	elems []value
	idx   *smt.Term // BV64, known in range under the path condition
	m     *Machine
}

type mapEntry struct {
	k, v    value
	deleted bool
}

type mapV struct {
	keyT    types.Type
	entries []*mapEntry
	index   map[string]int // concrete key -> entry index
	allConc bool
	live    int
}

type chanV struct {
	buf    []value
	cap    int
	closed bool
	timer  bool // made by time.After: fires (once) when a select would otherwise block
	fired  bool
}

type bad struct{}

// targetPanic is a panic raised by the interpreted program.
type targetPanic struct{ v value }

// runtimeErr: a Go run-time error raised by the interpreted program.
type runtimeErr struct{ msg string }

func (e runtimeErr) Error() string { return "runtime error: " + e.msg }

// pathAbort terminates exploration of the current path (not a program panic).
type pathAbort struct {
	kind string // infeasible | unsupported | limit | assume | violation-stop
	msg  string
}

func (p pathAbort) Error() string { return p.kind + ": " + p.msg }

type iter interface {
	next() tuple
}

// ---------------------------------------------------------------

func (m *Machine) zero(t types.Type) value {
	switch t := t.(type) {
	case *types.Basic:
		if t.Kind() == types.UntypedNil {
			panic("untyped nil has no zero value")
		}
		if t.Info()&types.IsUntyped != 0 {
			t = types.Default(t).(*types.Basic)
		}
		switch t.Kind() {
		case types.Bool:
			return m.c.False
		case types.String:
			return strV{}
		case types.Float32, types.Float64:
			return float64(0)
		case types.Complex64, types.Complex128:
			return complex128(0)
		case types.UnsafePointer:
			return (*value)(nil)
		}
		return m.c.BVConst(m.width(t), 0)
	case *types.Pointer:
		return (*value)(nil)
	case *types.Array:
		a := make(array, t.Len())
		if t.Len() > 0 {
			z := m.zero(t.Elem())
			a[0] = z
			for i := 1; i < len(a); i++ {
				a[i] = copyVal(z)
			}
		}
		return a
	case *types.Named:
		return m.zero(t.Underlying())
	case *types.Alias:
		return m.zero(types.Unalias(t))
	case *types.Interface:
		return iface{}
	case *types.Slice:
		return nilSlice
	case *types.Struct:
		s := make(structure, t.NumFields())
		for i := range s {
			s[i] = m.zero(t.Field(i).Type())
		}
		return s
	case *types.Tuple:
		if t.Len() == 1 {
			return m.zero(t.At(0).Type())
		}
		s := make(tuple, t.Len())
		for i := range s {
			s[i] = m.zero(t.At(i).Type())
		}
		return s
	case *types.Chan:
		return (*chanV)(nil)
	case *types.Map:
		return (*mapV)(nil)
	case *types.Signature:
		return (*ssa.Function)(nil)
	case *types.TypeParam:
		panic("zero of type parameter")
	}
	panic(fmt.Sprint("zero: unexpected ", t))
}

func (m *Machine) width(t types.Type) int {
	b, ok := t.Underlying().(*types.Basic)
	if !ok {
		panic(fmt.Sprintf("width of non-basic %v", t))
	}
	switch b.Kind() {
	case types.Int8, types.Uint8:
		return 8
	case types.Int16, types.Uint16:
		return 16
	case types.Int32, types.Uint32:
		return 32
	case types.Int64, types.Uint64, types.Int, types.Uint, types.Uintptr, types.UntypedInt, types.UntypedRune:
		return 64
	}
	panic(fmt.Sprintf("width of %v", t))
}

func isSigned(t types.Type) bool {
	b, ok := t.Underlying().(*types.Basic)
	if !ok {
		return false
	}
	return b.Info()&types.IsInteger != 0 && b.Info()&types.IsUnsigned == 0
}

func isInteger(t types.Type) bool {
	b, ok := t.Underlying().(*types.Basic)
	return ok && b.Info()&types.IsInteger != 0
}

func isBool(t types.Type) bool {
	b, ok := t.Underlying().(*types.Basic)
	return ok && b.Info()&types.IsBoolean != 0
}

func isString(t types.Type) bool {
	b, ok := t.Underlying().(*types.Basic)
	return ok && b.Info()&types.IsString != 0
}

func isFloat(t types.Type) bool {
	b, ok := t.Underlying().(*types.Basic)
	return ok && b.Info()&types.IsFloat != 0
}

// copyVal returns a copy of v (structs and arrays have value semantics).
func copyVal(v value) value {
	switch v := v.(type) {
	case structure:
		a := make(structure, len(v))
		for i, x := range v {
			a[i] = copyVal(x)
		}
		return a
	case array:
		a := make(array, len(v))
		for i, x := range v {
			a[i] = copyVal(x)
		}
		return a
	case tuple:
		break
	}
	return v
}

// storeInPlace assigns v to *p keeping the addresses of the fields/elements
// of an aggregate already stored there valid (FieldAddr/IndexAddr results
// computed before the store must still alias the variable).
func storeInPlace(p *value, v value) {
	switch nv := v.(type) {
	case structure:
		if old, ok := (*p).(structure); ok && len(old) == len(nv) {
			for i := range nv {
				storeInPlace(&old[i], nv[i])
			}
			return
		}
	case array:
		if old, ok := (*p).(array); ok && len(old) == len(nv) {
			for i := range nv {
				storeInPlace(&old[i], nv[i])
			}
			return
		}
	}
	*p = copyVal(v)
}

func (m *Machine) load(p value) value {
	switch p := p.(type) {
	case *value:
		if p == nil {
			panic(runtimeErr{"invalid memory address or nil pointer dereference"})
		}
		return copyVal(*p)
	case *elemPtr:
		return p.load()
	case *logPtr:
		return p.load()
	}
	panic(fmt.Sprintf("load from %T", p))
}

func (m *Machine) store(p value, v value) {
	switch p := p.(type) {
	case *value:
		if p == nil {
			panic(runtimeErr{"invalid memory address or nil pointer dereference"})
		}
		storeInPlace(p, v)
		return
	case *elemPtr:
		p.store(v)
		return
	case *logPtr:
		p.store(v)
		return
	}
	panic(fmt.Sprintf("store to %T", p))
}

// mapIte pushes a function of a constant through an ite-tree whose leaves are
// constants: f(ite(c,a,b)) = ite(c,f(a),f(b)).  ok=false if t is not such a tree.
func (m *Machine) mapIte(t *smt.Term, f func(v uint64) *smt.Term, memo map[int]*smt.Term, budget *int) (*smt.Term, bool) {
	if t.IsConst() {
		return f(t.V), true
	}
	if r, ok := memo[t.ID]; ok {
		return r, r != nil
	}
	*budget--
	if *budget < 0 {
		return nil, false
	}
	var res *smt.Term
	switch t.Op {
	case smt.OIte:
		a, ok1 := m.mapIte(t.Args[1], f, memo, budget)
		if ok1 {
			b, ok2 := m.mapIte(t.Args[2], f, memo, budget)
			if ok2 {
				res = m.c.Ite(t.Args[0], a, b)
			}
		}
	case smt.OZeroExt:
		res, _ = m.mapIte(t.Args[0], f, memo, budget)
	}
	memo[t.ID] = res
	return res, res != nil
}

// iteLeafMax returns the maximal constant leaf of an ite-tree (ok=false if not a tree of constants).
func (m *Machine) iteLeafMax(t *smt.Term) (uint64, bool) {
	budget := 2048
	max := uint64(0)
	_, ok := m.mapIte(t, func(v uint64) *smt.Term {
		if v > max {
			max = v
		}
		return m.c.True
	}, map[int]*smt.Term{}, &budget)
	return max, ok
}

func (p *elemPtr) load() value {
	c := p.m.c
	// constant table indexed by an ite-tree of constants: push the lookup to the leaves
	if p.idx.Op == smt.OIte || p.idx.Op == smt.OZeroExt {
		allConst := true
		var sort smt.Sort
		for _, e := range p.elems {
			t, ok := e.(*smt.Term)
			if !ok || !t.IsConst() {
				allConst = false
				break
			}
			sort = t.S
		}
		if allConst {
			budget := 2048
			oob := false
			r, ok := p.m.mapIte(p.idx, func(v uint64) *smt.Term {
				if v >= uint64(len(p.elems)) {
					oob = true
					return c.BVConst(sort.W, 0)
				}
				return p.elems[v].(*smt.Term)
			}, map[int]*smt.Term{}, &budget)
			if ok && !oob {
				return r
			}
		}
	}
	if len(p.elems) >= 16 {
		if r := p.loadConstTable(); r != nil {
			return r
		}
	}
	var r *smt.Term
	for i := len(p.elems) - 1; i >= 0; i-- {
		e, ok := p.elems[i].(*smt.Term)
		if !ok {
			panic(pathAbort{"unsupported", "symbolic index into non-scalar elements"})
		}
		if r == nil {
			r = e
			continue
		}
		r = c.Ite(c.Eq(p.idx, c.BVConst(64, uint64(i))), e, r)
	}
	return r
}

// loadConstTable: a table of BV constants read at a symbolic index is encoded
// as an ite over maximal runs that are constant or have slope 1 (e.g. the hex
// digit tables), instead of one ite per entry.
func (p *elemPtr) loadConstTable() *smt.Term {
	c := p.m.c
	n := len(p.elems)
	vals := make([]uint64, n)
	w := 0
	for i, e := range p.elems {
		t, ok := e.(*smt.Term)
		if !ok || !t.IsConst() || t.S.K != smt.KBV || t.S.W > 64 {
			return nil
		}
		vals[i] = t.V
		w = t.S.W
	}
	type run struct {
		start, end int
		slope      uint64
	}
	var runs []run
	for i := 0; i < n; {
		j := i + 1
		slope := uint64(0)
		if j < n {
			d := (vals[j] - vals[i]) & smt.MaskW(w)
			if d == 0 || d == 1 {
				slope = d
				for j < n && (vals[j]-vals[j-1])&smt.MaskW(w) == slope {
					j++
				}
			}
		}
		runs = append(runs, run{i, j - 1, slope})
		i = j
	}
	if len(runs) > n/2 {
		return nil
	}
	var idxw *smt.Term
	if w <= 64 {
		if w == 64 {
			idxw = p.idx
		} else {
			idxw = c.Extract(w-1, 0, p.idx)
		}
	}
	expr := func(r run) *smt.Term {
		if r.slope == 0 || r.start == r.end {
			return c.BVConst(w, vals[r.start])
		}
		return c.BvBin(smt.OBvAdd, idxw, c.BVConst(w, vals[r.start]-uint64(r.start)))
	}
	res := expr(runs[len(runs)-1])
	for k := len(runs) - 2; k >= 0; k-- {
		res = c.Ite(c.BvCmp(smt.OBvUle, p.idx, c.BVConst(64, uint64(runs[k].end))), expr(runs[k]), res)
	}
	return res
}

func (p *elemPtr) store(v value) {
	c := p.m.c
	nv := v.(*smt.Term)
	for i := range p.elems {
		e := p.elems[i].(*smt.Term)
		p.elems[i] = c.Ite(c.Eq(p.idx, c.BVConst(64, uint64(i))), nv, e)
	}
}

// ---------------------------------------------------------------
// strings

func (m *Machine) strByte(s strV, i int) *smt.Term {
	if s.sym != nil {
		return s.sym[i]
	}
	return m.c.BVConst(8, uint64(s.s[i]))
}

func (m *Machine) strBytes(s strV) []*smt.Term {
	if s.sym != nil {
		return s.sym
	}
	r := make([]*smt.Term, len(s.s))
	for i := 0; i < len(s.s); i++ {
		r[i] = m.c.BVConst(8, uint64(s.s[i]))
	}
	return r
}

func mkStr(bs []*smt.Term) strV {
	conc := true
	for _, b := range bs {
		if !b.IsConst() {
			conc = false
			break
		}
	}
	if conc {
		var sb strings.Builder
		for _, b := range bs {
			sb.WriteByte(byte(b.V))
		}
		return strV{s: sb.String()}
	}
	if len(bs) == 0 {
		return strV{}
	}
	return strV{sym: bs}
}

func (m *Machine) strEq(a, b strV) *smt.Term {
	if a.length() != b.length() {
		return m.c.False
	}
	if a.concrete() && b.concrete() {
		return m.c.Bool(a.s == b.s)
	}
	return m.seqEq(m.strBytes(a), m.strBytes(b))
}

// extractOf reports (X, lo) if t is the byte X[lo+7:lo] of a wider term X.
func extractOf(t *smt.Term) (*smt.Term, int, bool) {
	if t.Op == smt.OExtract && t.S.W == 8 {
		return t.Args[0], t.B, true
	}
	return nil, 0, false
}

// seqEq is the equality of two byte sequences of the same length.  Runs of
// bytes that are adjacent slices of one wide term on both sides (digests of
// an uninterpreted hash, mostly) are compared as one wide equality instead of
// byte by byte, which keeps UF-heavy queries easy for the solver.
func (m *Machine) seqEq(a, b []*smt.Term) *smt.Term {
	c := m.c
	r := c.True
	for i := 0; i < len(a); {
		xa, la, oka := extractOf(a[i])
		xb, lb, okb := extractOf(b[i])
		if !oka || !okb {
			r = c.And(r, c.Eq(a[i], b[i]))
			i++
			continue
		}
		j := i + 1
		for j < len(a) {
			ya, l2a, ok1 := extractOf(a[j])
			yb, l2b, ok2 := extractOf(b[j])
			if !ok1 || !ok2 || ya != xa || yb != xb || l2a != la-8*(j-i) || l2b != lb-8*(j-i) {
				break
			}
			j++
		}
		n := j - i
		if n == 1 {
			r = c.And(r, c.Eq(a[i], b[i]))
		} else {
			ta := c.Extract(la+7, la-8*(n-1), xa)
			tb := c.Extract(lb+7, lb-8*(n-1), xb)
			r = c.And(r, c.Eq(ta, tb))
		}
		i = j
	}
	return r
}

// strLess: lexicographic a < b
func (m *Machine) strLess(a, b strV) *smt.Term {
	if a.concrete() && b.concrete() {
		return m.c.Bool(a.s < b.s)
	}
	c := m.c
	n := a.length()
	if b.length() < n {
		n = b.length()
	}
	// from the end: lt_i = a[i]<b[i] || (a[i]==b[i] && lt_{i+1})
	r := c.Bool(a.length() < b.length())
	for i := n - 1; i >= 0; i-- {
		ai, bi := m.strByte(a, i), m.strByte(b, i)
		r = c.Or(c.BvCmp(smt.OBvUlt, ai, bi), c.And(c.Eq(ai, bi), r))
	}
	return r
}

// ---------------------------------------------------------------

func (m *Machine) conc(t *smt.Term, what string) uint64 {
	if t.IsConst() {
		return t.V
	}
	return m.concretize(t, what)
}

func (m *Machine) concInt(v value, what string) int {
	t := v.(*smt.Term)
	if t.IsConst() {
		return int(t.Int64())
	}
	u := m.concretize(t, what)
	w := t.S.W
	if w < 64 && u&(uint64(1)<<uint(w-1)) != 0 {
		u |= ^uint64(0) << uint(w)
	}
	return int(int64(u))
}

func (m *Machine) intTerm(v int) *smt.Term { return m.c.BVConst(64, uint64(int64(v))) }

func typeString(t types.Type) string {
	return types.TypeString(t, nil)
}

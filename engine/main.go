// gosym: solver-based checking of goloop properties by symbolic execution of
// go/ssa.  Usage:
//
//	gosym check <id> [--tier quick|thorough] [--harness NAME] [--trace] [--workers N]
//	gosym replay <dir>
//	gosym list
package main

import (
	"encoding/json"
	"flag"
	"fmt"
	"os"
	"os/exec"
	"path/filepath"
	"sort"
	"strconv"
	"strings"
	"time"

	"golang.org/x/tools/go/packages"
	"golang.org/x/tools/go/ssa"
	"golang.org/x/tools/go/ssa/ssautil"

	"verif/engine/interp"
)

const (
	verifDir = "/verif"
	modPath  = "github.com/icon-project/goloop"
)

// repoDir is /repo; VERIF_REPO_DIR / VERIF_REPLAY_ROOT exist only so that the
// seeded-change regression (tools/seed_all.sh) can run against a scratch
// worktree without touching /repo or the replays of a concurrent run.  The
// registered commands never set them.
var (
	repoDir    = envOr("VERIF_REPO_DIR", "/repo")
	replayRoot = envOr("VERIF_REPLAY_ROOT", filepath.Join(verifDir, "replays"))
)

func envOr(k, d string) string {
	if v := os.Getenv(k); v != "" {
		return v
	}
	return d
}

type TierSpec struct {
	Params     map[string]int64 `json:"params"`
	BudgetS    int              `json:"budget_s"`
	TimeoutMS  int              `json:"timeout_ms"`
	MaxPaths   int              `json:"max_paths"`
	MaxSteps   int              `json:"max_steps"`
	Harnesses  []string         `json:"harnesses"` // default: all VH_<id>_*
	Selftest   int              `json:"selftest"`  // number of concrete vectors per harness
	Workers    int              `json:"workers"`
	CrossCheck bool             `json:"cross_check"`
}

type Spec struct {
	ID             string              `json:"id"`
	Package        string              `json:"package"` // import path relative to module, e.g. common/intconv
	ExtraPackages  []string            `json:"extra_packages"`
	HarnessPkgs    []string            `json:"harness_packages"` // additional packages (relative) that contain VH_ functions
	HarnessFiles   []string            `json:"harness_files"` // relative to /verif/harness
	Functions      []string            `json:"functions_encoded"`
	Assumptions    []string            `json:"assumptions"`
	Outside        []string            `json:"outside_bounds"`
	Bounds         map[string]string   `json:"bounds"`
	Replace        map[string]string   `json:"replace"`
	SkipInit       []string            `json:"skip_init"`
	GoMode         string              `json:"go_mode"`
	BigNewIntZ     bool                `json:"big_newint_z"`
	Solver         string              `json:"solver"` // z3 (4.8.12, default) | z3-new (5.1.0) | cvc5
	ExpectedLabels map[string][]string `json:"expected_labels"` // harness -> labels that must be reached
	Tiers          map[string]TierSpec `json:"tiers"`
	NoReplay       []string            `json:"no_replay"` // harnesses whose counterexamples depend on modelled crypto (use concretiser)
	Concretiser    map[string]string   `json:"concretiser"`
}

func env() []string {
	e := os.Environ()
	e = append(e, "GOFLAGS=-mod=mod", "GOPROXY=off", "GOSUMDB=off", "GOTOOLCHAIN=local")
	return e
}

func loadSpec(id string) (*Spec, error) {
	b, err := os.ReadFile(filepath.Join(verifDir, "props", id+".json"))
	if err != nil {
		return nil, err
	}
	var s Spec
	if err := json.Unmarshal(b, &s); err != nil {
		return nil, fmt.Errorf("props/%s.json: %v", id, err)
	}
	return &s, nil
}

func overlayFor(spec *Spec) (map[string][]byte, map[string]string, error) {
	ov := map[string][]byte{}
	paths := map[string]string{}
	add := func(virtual, real string) error {
		b, err := os.ReadFile(real)
		if err != nil {
			return err
		}
		ov[virtual] = b
		paths[virtual] = real
		return nil
	}
	if err := add(filepath.Join(repoDir, "zzverif/sym/sym.go"), filepath.Join(verifDir, "harness/sym/sym.go")); err != nil {
		return nil, nil, err
	}
	for _, hf := range spec.HarnessFiles {
		if err := add(filepath.Join(repoDir, hf), filepath.Join(verifDir, "harness", hf)); err != nil {
			return nil, nil, err
		}
	}
	return ov, paths, nil
}

type loaded struct {
	prog     *ssa.Program
	pkg      *ssa.Package
	all      []*ssa.Package
	hpkgs    []*ssa.Package          // packages holding harness functions
	hpkgOf   map[string]*ssa.Package // harness name -> package
	loadTime time.Duration
}

func load(spec *Spec) (*loaded, error) {
	t0 := time.Now()
	ov, _, err := overlayFor(spec)
	if err != nil {
		return nil, err
	}
	cfg := &packages.Config{
		Mode:    packages.LoadAllSyntax,
		Dir:     repoDir,
		Env:     env(),
		Overlay: ov,
	}
	pats := []string{modPath + "/" + spec.Package}
	for _, p := range spec.HarnessPkgs {
		pats = append(pats, modPath+"/"+p)
	}
	for _, p := range spec.ExtraPackages {
		pats = append(pats, p)
	}
	pkgs, err := packages.Load(cfg, pats...)
	if err != nil {
		return nil, err
	}
	var errs []string
	packages.Visit(pkgs, nil, func(p *packages.Package) {
		for _, e := range p.Errors {
			errs = append(errs, e.Error())
		}
	})
	if len(errs) > 0 {
		if len(errs) > 10 {
			errs = errs[:10]
		}
		return nil, fmt.Errorf("package load errors:\n%s", strings.Join(errs, "\n"))
	}
	prog, spkgs := ssautil.AllPackages(pkgs, ssa.InstantiateGenerics)
	prog.Build()
	l := &loaded{prog: prog, loadTime: time.Since(t0)}
	for i, p := range pkgs {
		if p.PkgPath == modPath+"/"+spec.Package {
			l.pkg = spkgs[i]
		}
		for _, hp := range append([]string{spec.Package}, spec.HarnessPkgs...) {
			if p.PkgPath == modPath+"/"+hp {
				l.hpkgs = append(l.hpkgs, spkgs[i])
			}
		}
	}
	l.all = prog.AllPackages()
	if l.pkg == nil {
		return nil, fmt.Errorf("package %s not loaded", spec.Package)
	}
	return l, nil
}

func findFunc(prog *ssa.Program, name string) *ssa.Function {
	// name: "pkgpath.Func" or "(*pkgpath.T).Method" or "(pkgpath.T).Method"
	for fn := range ssautil.AllFunctions(prog) {
		if fn.String() == name {
			return fn
		}
	}
	return nil
}

type knownFinding struct {
	Kind string // known | fixed
	Prop string
	Key  string
	Text string
}

func loadKnown() []knownFinding {
	b, err := os.ReadFile(filepath.Join(verifDir, "known_findings.txt"))
	if err != nil {
		return nil
	}
	var r []knownFinding
	for _, line := range strings.Split(string(b), "\n") {
		line = strings.TrimSpace(line)
		if line == "" || strings.HasPrefix(line, "#") {
			continue
		}
		var kf knownFinding
		switch {
		case strings.HasPrefix(line, "known:"):
			kf.Kind = "known"
			line = strings.TrimSpace(line[6:])
		case strings.HasPrefix(line, "fixed:"):
			kf.Kind = "fixed"
			line = strings.TrimSpace(line[6:])
		default:
			continue
		}
		for _, f := range strings.Fields(line) {
			if strings.HasPrefix(f, "property=") {
				kf.Prop = f[9:]
			}
			if strings.HasPrefix(f, "key=") {
				kf.Key = f[4:]
			}
		}
		kf.Text = line
		r = append(r, kf)
	}
	return r
}

func main() {
	if len(os.Args) < 2 {
		fmt.Fprintln(os.Stderr, "usage: gosym check|replay|list ...")
		os.Exit(2)
	}
	switch os.Args[1] {
	case "check":
		os.Exit(cmdCheck(os.Args[2:]))
	case "replay":
		os.Exit(cmdReplay(os.Args[2:]))
	case "list":
		ents, _ := filepath.Glob(filepath.Join(verifDir, "props", "*.json"))
		for _, e := range ents {
			fmt.Println(strings.TrimSuffix(filepath.Base(e), ".json"))
		}
	default:
		fmt.Fprintln(os.Stderr, "unknown command")
		os.Exit(2)
	}
}

func cmdCheck(args []string) int {
	fs := flag.NewFlagSet("check", flag.ExitOnError)
	tier := fs.String("tier", "", "quick|thorough")
	only := fs.String("harness", "", "run only this harness function")
	trace := fs.Bool("trace", false, "trace calls")
	workers := fs.Int("workers", 0, "worker count")
	solverLog := fs.String("solver-log", "", "write worker 0 solver transcript here")
	solverKind := fs.String("solver", "", "z3 | z3-new | cvc5 (default: spec or z3)")
	noReplay := fs.Bool("no-replay", false, "do not replay counterexamples natively")
	noEvidence := fs.Bool("no-evidence", false, "do not write the evidence file")
	var id string
	if len(args) > 0 && !strings.HasPrefix(args[0], "-") {
		id = args[0]
		args = args[1:]
	}
	fs.Parse(args)
	if id == "" && fs.NArg() > 0 {
		id = fs.Arg(0)
	}
	if *tier == "" {
		*tier = os.Getenv("VERIF_TIER")
	}
	if *tier == "" {
		*tier = "quick"
	}
	seed := int64(0)
	if s := os.Getenv("VERIF_SEED"); s != "" {
		seed, _ = strconv.ParseInt(s, 10, 64)
	}
	t0 := time.Now()
	spec, err := loadSpec(id)
	if err != nil {
		fmt.Fprintln(os.Stderr, "gosym:", err)
		return 2
	}
	ts, ok := spec.Tiers[*tier]
	if !ok {
		ts = spec.Tiers["quick"]
	}
	ld, err := load(spec)
	if err != nil {
		fmt.Fprintln(os.Stderr, "gosym: load failed:", err)
		fmt.Printf("INCONCLUSIVE: property=%s the repository does not load/type-check with the harness: %v\n", id, firstLine(err.Error()))
		writeEvidence(spec, *tier, seed, nil, ld, time.Since(t0), 0, []string{"load failed: " + err.Error()}, 0, *noEvidence)
		return 0
	}
	envv := interp.NewEnv(ld.prog)
	envv.Trace = *trace
	envv.SolverLog = *solverLog
	envv.GoMode = spec.GoMode
	envv.BigNewIntZ = spec.BigNewIntZ
	if spec.Solver != "" {
		envv.SolverKind = spec.Solver
	}
	if *solverKind != "" {
		envv.SolverKind = *solverKind
	}
	solverUsed = envv.SolverKind
	if envv.GoMode == "" {
		envv.GoMode = "run"
	}
	for k, v := range ts.Params {
		envv.Params[k] = v
	}
	if ts.BudgetS > 0 {
		envv.Budget = time.Duration(ts.BudgetS) * time.Second
	}
	if ts.TimeoutMS > 0 {
		envv.TimeoutMS = ts.TimeoutMS
	}
	if ts.MaxPaths > 0 {
		envv.MaxPaths = ts.MaxPaths
	}
	if ts.MaxSteps > 0 {
		envv.Limits.MaxSteps = ts.MaxSteps
	}
	envv.Workers = 14
	if ts.Workers > 0 {
		envv.Workers = ts.Workers
	}
	if *workers > 0 {
		envv.Workers = *workers
	}
	for _, p := range spec.SkipInit {
		envv.SkipInit[p] = true
	}
	for from, to := range spec.Replace {
		f := findFunc(ld.prog, to)
		if f == nil {
			f = ld.pkg.Func(to)
		}
		if f == nil {
			fmt.Printf("INCONCLUSIVE: property=%s replacement function %s not found\n", id, to)
			writeEvidence(spec, *tier, seed, nil, ld, time.Since(t0), 0, []string{"replacement target missing: " + to}, 0, *noEvidence)
			return 0
		}
		if findFunc(ld.prog, from) == nil {
			fmt.Printf("INCONCLUSIVE: property=%s function to replace %s not found in the current tree\n", id, from)
			writeEvidence(spec, *tier, seed, nil, ld, time.Since(t0), 0, []string{"replaced function missing: " + from}, 0, *noEvidence)
			return 0
		}
		envv.Replace[from] = f
	}
	// harness functions
	var hs []*ssa.Function
	want := map[string]bool{}
	for _, h := range ts.Harnesses {
		want[h] = true
	}
	var names []string
	ld.hpkgOf = map[string]*ssa.Package{}
	for _, hp := range ld.hpkgs {
		for name, mem := range hp.Members {
			if _, ok := mem.(*ssa.Function); ok && strings.HasPrefix(name, "VH_"+id+"_") {
				if len(want) > 0 && !want[name] {
					continue
				}
				if *only != "" && name != *only {
					continue
				}
				names = append(names, name)
				ld.hpkgOf[name] = hp
			}
		}
	}
	sort.Strings(names)
	for _, n := range names {
		hs = append(hs, ld.hpkgOf[n].Func(n))
	}
	if len(hs) == 0 {
		fmt.Printf("INCONCLUSIVE: property=%s no harness functions found\n", id)
		writeEvidence(spec, *tier, seed, nil, ld, time.Since(t0), 0, []string{"no harness functions"}, 0, *noEvidence)
		return 0
	}
	known := loadKnown()
	for _, k := range known {
		if k.Kind == "known" && k.Prop == id {
			envv.KnownKeys = append(envv.KnownKeys, k.Key)
		}
	}
	var results []*interp.HarnessResult
	var inconclusive []string
	violations := 0
	exit := 0
	validated := 0
	for _, h := range hs {
		hr := interp.Explore(envv, h)
		results = append(results, hr)
		fmt.Printf("harness %s: paths=%d ok=%d obligations=%d discharged=%d (trivial %d) queries=%d solver=%.1fs wall=%.1fs aborts=%v labels=%v\n",
			hr.Harness, hr.Paths, hr.PathsOK, hr.Obligations, hr.Discharged, hr.Trivial, hr.Queries, hr.SolverTime.Seconds(), hr.Wall.Seconds(), hr.Aborts, hr.Labels)
		for k, v := range hr.AbortSamples {
			if strings.HasPrefix(k, "assume") || strings.HasPrefix(k, "violation-stop") {
				continue
			}
			fmt.Printf("  abort sample: %s\n", indent(v))
		}
		for k := range hr.Aborts {
			if k != "assume" && k != "violation-stop" && k != "infeasible" {
				inconclusive = append(inconclusive, fmt.Sprintf("%s: %d path(s) aborted: %s", hr.Harness, hr.Aborts[k], k))
			}
		}
		if hr.Truncated {
			inconclusive = append(inconclusive, hr.Harness+": exploration truncated (path/time budget)")
		}
		for _, s := range hr.Inconclusive {
			inconclusive = append(inconclusive, hr.Harness+": "+s)
		}
		for _, s := range hr.SolverErrors {
			inconclusive = append(inconclusive, hr.Harness+": solver error: "+s)
		}
		for _, l := range spec.ExpectedLabels[hr.Harness] {
			if hr.Labels[l] == 0 {
				inconclusive = append(inconclusive, fmt.Sprintf("%s: vacuity label %q not reached", hr.Harness, l))
			}
		}
		// violations: replay natively
		seen := map[string]bool{}
		for i, v := range hr.Violations {
			key := v.Harness + ":" + v.Msg
			dir := filepath.Join(replayRoot, id, fmt.Sprintf("%s_%d", hr.Harness, i))
			status := "skipped"
			if !*noReplay {
				status = replayViolation(spec, ld, hr.Harness, v, dir)
			}
			fmt.Printf("  counterexample %s kind=%s msg=%q native=%q\n", dir, v.Kind, v.Msg, status)
			reproduced := false
			switch v.Kind {
			case "assert":
				reproduced = status == "assert: "+v.Msg
			case "panic":
				reproduced = strings.HasPrefix(status, "panic:")
			}
			if !reproduced && !*noReplay && (strings.HasPrefix(status, "assert: ") || strings.HasPrefix(status, "panic:")) &&
				!strings.HasPrefix(status, "assert: harness:") {
				// the real code fails another assertion of the same harness on the solver's input
				// (a modelled part - hash, key, cipher - behaves more strictly than the model): the
				// native run is what counts, it is a concrete failing input against the real build
				fmt.Printf("  note: the encoding predicted %q; the native run of the same input fails %q\n", v.Msg, status)
				key = v.Harness + ":" + strings.TrimPrefix(status, "assert: ")
				reproduced = true
			}
			if !reproduced {
				if !*noReplay {
					fmt.Printf("UNREPRODUCED: property=%s harness=%s msg=%q native=%q replay=%s\n", id, hr.Harness, v.Msg, status, dir)
				}
				inconclusive = append(inconclusive, fmt.Sprintf("%s: counterexample did not reproduce natively (%s): %s", hr.Harness, status, v.Msg))
				continue
			}
			validated++
			if kf := matchKnown(known, id, key); kf != nil {
				if !seen[kf.Key] {
					fmt.Printf("KNOWN-FINDING: %s\n", kf.Text)
					seen[kf.Key] = true
				}
				continue
			}
			violations++
			fmt.Printf("VIOLATION property=%s replay=%s\n", id, dir)
			exit = 1
		}
		// differential self-test
		if ts.Selftest > 0 && !*noReplay {
			n, bad := selftest(spec, ld, envv, h, ts.Selftest, seed)
			validated += n
			for _, b := range bad {
				inconclusive = append(inconclusive, hr.Harness+": interpreter/native disagreement: "+b)
			}
		}
	}
	for _, s := range inconclusive {
		fmt.Printf("INCONCLUSIVE: property=%s %s\n", id, s)
	}
	for p, msg := range envv.InitFailures() {
		fmt.Printf("note: lazy init of %s failed: %s\n", p, firstLine(msg))
	}
	writeEvidence(spec, *tier, seed, results, ld, time.Since(t0), violations, inconclusive, validated, *noEvidence)
	if exit == 0 && len(inconclusive) > 0 && os.Getenv("VERIF_STRICT") == "1" {
		return 2
	}
	return exit
}

func matchKnown(known []knownFinding, id, key string) *knownFinding {
	for i := range known {
		k := &known[i]
		if k.Kind == "known" && k.Prop == id && k.Key != "" && strings.Contains(strings.ReplaceAll(key, " ", "_"), k.Key) {
			return k
		}
	}
	return nil
}

func indent(s string) string {
	lines := strings.Split(s, "\n")
	if len(lines) > 14 {
		lines = lines[:14]
	}
	return strings.Join(lines, "\n      ")
}

func firstLine(s string) string {
	if i := strings.IndexByte(s, '\n'); i >= 0 {
		return s[:i]
	}
	return s
}

// ---------------------------------------------------------------
// native replay

func writeReplayDir(spec *Spec, ld *loaded, harness string, dir string, vectors []map[string]string) (string, error) {
	os.RemoveAll(dir)
	if err := os.MkdirAll(dir, 0o755); err != nil {
		return "", err
	}
	var vecPaths []string
	for i, v := range vectors {
		p := filepath.Join(dir, fmt.Sprintf("vector_%d.json", i))
		b, _ := json.MarshalIndent(v, "", " ")
		if err := os.WriteFile(p, b, 0o644); err != nil {
			return "", err
		}
		vecPaths = append(vecPaths, p)
	}
	hp := ld.hpkgOf[harness]
	if hp == nil {
		hp = ld.pkg
	}
	pkgName := hp.Pkg.Name()
	pkgRel := strings.TrimPrefix(hp.Pkg.Path(), modPath+"/")
	var sb strings.Builder
	fmt.Fprintf(&sb, "package %s\n\nimport (\n\t\"fmt\"\n\t\"os\"\n\t\"strings\"\n\t\"testing\"\n\n\t\"%s/zzverif/sym\"\n)\n\n", pkgName, modPath)
	fmt.Fprintf(&sb, "func TestVerifReplay(t *testing.T) {\n\tfor i, p := range strings.Split(os.Getenv(\"VERIF_VECTORS\"), \":\") {\n\t\tif p == \"\" {\n\t\t\tcontinue\n\t\t}\n")
	fmt.Fprintf(&sb, "\t\tif err := sym.LoadVector(p); err != nil {\n\t\t\tt.Fatal(err)\n\t\t}\n")
	fmt.Fprintf(&sb, "\t\tfunc() {\n\t\t\tdefer func() {\n\t\t\t\tr := recover()\n\t\t\t\tfor _, o := range sym.Observed {\n\t\t\t\t\tfmt.Printf(\"VERIF-OBSERVE %%d %%s\\n\", i, o)\n\t\t\t\t}\n\t\t\t\tfmt.Printf(\"VERIF-RESULT %%d %%s\\n\", i, strings.ReplaceAll(sym.Classify(r), \"\\n\", \" \"))\n\t\t\t}()\n\t\t\t%s()\n\t\t}()\n\t}\n}\n", harness)
	testPath := filepath.Join(dir, "zz_verif_replay_test.go")
	if err := os.WriteFile(testPath, []byte(sb.String()), 0o644); err != nil {
		return "", err
	}
	_, paths, err := overlayFor(spec)
	if err != nil {
		return "", err
	}
	paths[filepath.Join(repoDir, pkgRel, "zz_verif_replay_test.go")] = testPath
	ovb, _ := json.MarshalIndent(map[string]interface{}{"Replace": paths}, "", " ")
	ovPath := filepath.Join(dir, "overlay.json")
	if err := os.WriteFile(ovPath, ovb, 0o644); err != nil {
		return "", err
	}
	meta := map[string]interface{}{"property": spec.ID, "harness": harness, "package": pkgRel, "vectors": vecPaths}
	mb, _ := json.MarshalIndent(meta, "", " ")
	os.WriteFile(filepath.Join(dir, "replay.json"), mb, 0o644)
	return strings.Join(vecPaths, ":"), nil
}

func runNative(dir, pkg, vectors string) (string, error) {
	cmd := exec.Command("go", "test", "-vet=off", "-count=1", "-run", "^TestVerifReplay$", "-v", "-overlay", filepath.Join(dir, "overlay.json"), "./"+pkg)
	cmd.Dir = repoDir
	cmd.Env = append(env(), "VERIF_VECTORS="+vectors)
	out, err := cmd.CombinedOutput()
	os.WriteFile(filepath.Join(dir, "native.log"), out, 0o644)
	return string(out), err
}

func parseNative(out string) (map[int]string, map[int][]string) {
	res := map[int]string{}
	obs := map[int][]string{}
	for _, line := range strings.Split(out, "\n") {
		line = strings.TrimSpace(line)
		if strings.HasPrefix(line, "VERIF-RESULT ") {
			rest := line[len("VERIF-RESULT "):]
			sp := strings.SplitN(rest, " ", 2)
			i, _ := strconv.Atoi(sp[0])
			if len(sp) > 1 {
				res[i] = sp[1]
			}
		}
		if strings.HasPrefix(line, "VERIF-OBSERVE ") {
			rest := line[len("VERIF-OBSERVE "):]
			sp := strings.SplitN(rest, " ", 2)
			i, _ := strconv.Atoi(sp[0])
			if len(sp) > 1 {
				obs[i] = append(obs[i], sp[1])
			}
		}
	}
	return res, obs
}

func replayViolation(spec *Spec, ld *loaded, harness string, v interp.Violation, dir string) string {
	vecs, err := writeReplayDir(spec, ld, harness, dir, []map[string]string{v.Model})
	if err != nil {
		return "error: " + err.Error()
	}
	b, _ := json.MarshalIndent(v, "", " ")
	os.WriteFile(filepath.Join(dir, "violation.json"), b, 0o644)
	out, _ := runNative(dir, harnessPkgRel(ld, harness, spec), vecs)
	res, _ := parseNative(out)
	if r, ok := res[0]; ok {
		return r
	}
	return "error: no result (see native.log)"
}

func cmdReplay(args []string) int {
	if len(args) < 1 {
		fmt.Fprintln(os.Stderr, "usage: gosym replay <dir>")
		return 2
	}
	dir := args[0]
	b, err := os.ReadFile(filepath.Join(dir, "replay.json"))
	if err != nil {
		fmt.Fprintln(os.Stderr, err)
		return 2
	}
	var meta struct {
		Property string
		Harness  string
		Package  string
		Vectors  []string
	}
	json.Unmarshal(b, &meta)
	out, _ := runNative(dir, meta.Package, strings.Join(meta.Vectors, ":"))
	res, _ := parseNative(out)
	bad := false
	for i := range meta.Vectors {
		fmt.Printf("vector %d: %s\n", i, res[i])
		if strings.HasPrefix(res[i], "assert:") || strings.HasPrefix(res[i], "panic:") {
			bad = true
		}
	}
	if bad {
		fmt.Printf("VIOLATION property=%s replay=%s\n", meta.Property, dir)
		return 1
	}
	return 0
}

// selftest runs K concrete vectors through the interpreter and natively and compares.
func selftest(spec *Spec, ld *loaded, envv *interp.Env, h *ssa.Function, k int, seed int64) (int, []string) {
	var vectors []map[string]string
	var results []*interp.PathResult
	for i := 0; i < k*6 && len(vectors) < k; i++ {
		res, vec := interp.RunConcrete(envv, h, nil, uint64(seed)*1000+uint64(i)+1)
		if res.Status == "abort:assume" {
			continue
		}
		vectors = append(vectors, vec)
		results = append(results, res)
	}
	if len(vectors) == 0 {
		return 0, nil
	}
	dir := filepath.Join(replayRoot, spec.ID, "selftest_"+h.Name())
	vecs, err := writeReplayDir(spec, ld, h.Name(), dir, vectors)
	if err != nil {
		return 0, []string{err.Error()}
	}
	out, _ := runNative(dir, harnessPkgRel(ld, h.Name(), spec), vecs)
	nres, nobs := parseNative(out)
	agree := 0
	var bad []string
	for i, r := range results {
		istatus := "ok"
		switch {
		case r.Status == "ok":
			if len(r.Violations) > 0 {
				istatus = "assert: " + r.Violations[0].Msg
			}
		case r.Status == "panic":
			istatus = "panic:"
		case strings.HasPrefix(r.Status, "abort:violation-stop"):
			if len(r.Violations) > 0 {
				istatus = "assert: " + r.Violations[0].Msg
			}
		default:
			// interpreter could not run this vector (unsupported): not a disagreement
			continue
		}
		ns, ok := nres[i]
		if !ok {
			bad = append(bad, fmt.Sprintf("vector %d: no native result", i))
			continue
		}
		if strings.HasPrefix(istatus, "panic:") && strings.HasPrefix(ns, "panic:") {
			ns = "panic:"
		}
		if istatus != ns {
			bad = append(bad, fmt.Sprintf("vector %d (%s): interpreter %q native %q", i, filepath.Join(dir, fmt.Sprintf("vector_%d.json", i)), istatus, ns))
			continue
		}
		if strings.Join(r.Observes, "|") != strings.Join(nobs[i], "|") && istatus == "ok" {
			bad = append(bad, fmt.Sprintf("vector %d (%s): observations differ: interpreter %v native %v", i, filepath.Join(dir, fmt.Sprintf("vector_%d.json", i)), r.Observes, nobs[i]))
			continue
		}
		agree++
	}
	if len(bad) == 0 {
		os.RemoveAll(dir)
	}
	return agree, bad
}

// ---------------------------------------------------------------
// evidence

func writeEvidence(spec *Spec, tier string, seed int64, results []*interp.HarnessResult, ld *loaded, wall time.Duration, violations int, inconclusive []string, validated int, skip bool) {
	if skip {
		return
	}
	var paths, pathsOK int
	var steps, queries int64
	var solver time.Duration
	obl, dis, triv := 0, 0, 0
	var samples []interface{}
	labels := map[string]int{}
	perH := []map[string]interface{}{}
	truncated := false
	for _, r := range results {
		paths += r.Paths
		pathsOK += r.PathsOK
		steps += r.Steps
		queries += r.Queries
		solver += r.SolverTime
		obl += r.Obligations
		dis += r.Discharged
		triv += r.Trivial
		if r.Truncated {
			truncated = true
		}
		for k, v := range r.Labels {
			labels[r.Harness+":"+k] += v
		}
		for _, s := range r.Samples {
			if len(samples) < 12 {
				samples = append(samples, s)
			}
		}
		perH = append(perH, map[string]interface{}{
			"harness": r.Harness, "paths": r.Paths, "paths_completed": r.PathsOK, "ssa_steps": r.Steps, "queries": r.Queries,
			"solver_time_s": round(r.SolverTime.Seconds()), "obligations": r.Obligations, "discharged": r.Discharged,
			"trivially_true": r.Trivial, "aborts": r.Aborts, "max_decisions_on_a_path": r.MaxDecisions, "wall_s": round(r.Wall.Seconds()),
			"truncated": r.Truncated, "unknown_branch_queries": r.UnknownBr,
		})
	}
	if len(samples) == 0 {
		samples = append(samples, map[string]interface{}{"note": "no completed path"})
	}
	if paths == 0 {
		paths = 1
	}
	if steps == 0 {
		steps = 1
	}
	tierSpec := spec.Tiers[tier]
	cov := map[string]interface{}{
		"states":                        paths,
		"transitions":                   steps,
		"traces_validated_against_impl": validated,
		"samples":                       samples,
		"obligations":                   obl,
		"discharged":                    dis,
		"trivially_true_obligations":    triv,
		"inconclusive":                  len(inconclusive),
		"inconclusive_detail":           inconclusive,
		"paths_completed":               pathsOK,
		"queries":                       queries,
		"solver_time_s":                 round(solver.Seconds()),
		"solver":                        solverDesc(),
		"functions_encoded":             spec.Functions,
		"bounds":                        spec.Bounds,
		"tier_params":                   tierSpec.Params,
		"outside_bounds":                spec.Outside,
		"vacuity_labels_reached":        labels,
		"per_harness":                   perH,
		"exhaustive":                    !truncated && len(inconclusive) == 0,
		"explanation":                   "states = feasible paths of the harness functions explored by the symbolic executor over go/ssa of /repo's working tree; transitions = SSA instructions executed symbolically; each obligation is a sym.Assert discharged by an unsat answer (negated assertion under the path condition) or an implicit run-time check; traces_validated_against_impl = native replays of counterexamples + concrete vectors on which interpreter and native build agree",
	}
	if ld != nil {
		cov["load_and_ssa_build_s"] = round(ld.loadTime.Seconds())
	}
	ev := map[string]interface{}{
		"property_id": spec.ID,
		"tier":        tier,
		"seed":        seed,
		"level":       "model_checking",
		"coverage":    cov,
		"assumptions": spec.Assumptions,
		"wall_s":      round(wall.Seconds()),
		"violations":  violations,
	}
	b, _ := json.MarshalIndent(ev, "", " ")
	os.MkdirAll(filepath.Join(verifDir, "evidence"), 0o755)
	os.WriteFile(filepath.Join(verifDir, "evidence", spec.ID+".json"), b, 0o644)
}

var solverUsed = "z3-new"

func solverDesc() string {
	switch solverUsed {
	case "z3-new":
		return "z3 5.1.0 (z3-new -in, no set-logic, incremental per path)"
	case "cvc5":
		return "cvc5 1.0 (--incremental, logic ALL)"
	}
	return "z3 4.8.12 (z3 -in, no set-logic, incremental per path)"
}

func round(f float64) float64 { return float64(int64(f*100)) / 100 }

func harnessPkgRel(ld *loaded, harness string, spec *Spec) string {
	if hp := ld.hpkgOf[harness]; hp != nil {
		return strings.TrimPrefix(hp.Pkg.Path(), modPath+"/")
	}
	return spec.Package
}

package smt

import (
	"bufio"
	"fmt"
	"io"
	"math/big"
	"os"
	"os/exec"
	"strings"
	"time"
)

type Result int

const (
	Unsat Result = iota
	Sat
	Unknown
)

func (r Result) String() string {
	switch r {
	case Unsat:
		return "unsat"
	case Sat:
		return "sat"
	}
	return "unknown"
}

// Solver is one long-lived solver process driven over a pipe.
type Solver struct {
	Kind       string // z3 | z3-new | cvc5
	cmd        *exec.Cmd
	in         io.WriteCloser
	out        *bufio.Reader
	TimeoutMS  int
	defined    map[int]bool
	declared   map[string]bool
	nlit       int
	Queries    int
	Time       time.Duration
	Errors     []string
	Log        io.Writer // optional transcript
	dead       bool
	pendingPop bool
	extraFrames int
}

func NewSolver(kind string, timeoutMS int) (*Solver, error) {
	s := &Solver{Kind: kind, TimeoutMS: timeoutMS}
	if err := s.start(); err != nil {
		return nil, err
	}
	return s, nil
}

func (s *Solver) start() error {
	var cmd *exec.Cmd
	switch s.Kind {
	case "z3":
		cmd = exec.Command("z3", "-in", "-smt2")
	case "z3-new":
		cmd = exec.Command("z3-new", "-in", "-smt2")
	case "cvc5":
		cmd = exec.Command("cvc5", "--incremental", "--lang=smt2", "--produce-models", fmt.Sprintf("--tlimit-per=%d", s.TimeoutMS))
	default:
		return fmt.Errorf("unknown solver %q", s.Kind)
	}
	in, err := cmd.StdinPipe()
	if err != nil {
		return err
	}
	out, err := cmd.StdoutPipe()
	if err != nil {
		return err
	}
	cmd.Stderr = nil
	if err := cmd.Start(); err != nil {
		return err
	}
	s.cmd, s.in, s.out = cmd, in, bufio.NewReaderSize(out, 1<<16)
	if d := os.Getenv("GOSYM_DUMP"); d != "" && s.Log == nil {
		if f, err := os.CreateTemp(d, "solver_*.smt2"); err == nil {
			s.Log = f
		}
	}
	s.dead = false
	s.resetState()
	s.prelude()
	return nil
}

func (s *Solver) resetState() {
	s.defined = map[int]bool{}
	s.declared = map[string]bool{}
	s.nlit = 0
}

func (s *Solver) prelude() {
	switch s.Kind {
	case "z3", "z3-new":
		s.send(fmt.Sprintf("(set-option :timeout %d)", s.TimeoutMS))
		s.send("(set-option :produce-models true)")
	case "cvc5":
		s.send("(set-logic ALL)")
	}
}

func (s *Solver) Close() {
	if s.cmd != nil {
		s.in.Close()
		s.cmd.Process.Kill()
		s.cmd.Wait()
		s.cmd = nil
	}
}

func (s *Solver) send(line string) {
	if s.Log != nil {
		fmt.Fprintln(s.Log, line)
	}
	if s.dead {
		return
	}
	if _, err := io.WriteString(s.in, line+"\n"); err != nil {
		s.dead = true
		s.Errors = append(s.Errors, "write: "+err.Error())
	}
}

// Reset forgets all assertions and definitions.
func (s *Solver) Reset() {
	if s.dead || s.Kind == "cvc5" {
		// cvc5 1.0 (reset) is fine too, but restarting is the robust path after a failure
		if s.dead {
			s.Close()
			if err := s.start(); err != nil {
				s.Errors = append(s.Errors, "restart: "+err.Error())
			}
			return
		}
	}
	s.send("(reset)")
	s.resetState()
	s.prelude()
}

// define emits declarations/definitions for every node of t not yet known.
func (s *Solver) define(c *Ctx, t *Term) {
	// iterative post-order
	type item struct {
		t *Term
		i int
	}
	if t.Op == OConst {
		return
	}
	stack := []item{{t, 0}}
	for len(stack) > 0 {
		top := &stack[len(stack)-1]
		n := top.t
		if s.defined[n.ID] {
			stack = stack[:len(stack)-1]
			continue
		}
		if top.i < len(n.Args) {
			a := n.Args[top.i]
			top.i++
			if a.Op != OConst && !s.defined[a.ID] {
				stack = append(stack, item{a, 0})
			}
			continue
		}
		switch n.Op {
		case OVar:
			s.send(fmt.Sprintf("(declare-const %s %s)", QuoteName(n.Name), n.S.String()))
		case OApp:
			if !s.declared[n.Name] {
				s.declared[n.Name] = true
				sig := c.UFs[n.Name]
				var as []string
				for _, a := range sig.Args {
					as = append(as, a.String())
				}
				s.send(fmt.Sprintf("(declare-fun %s (%s) %s)", QuoteName(n.Name), strings.Join(as, " "), sig.Ret.String()))
			}
			s.send(fmt.Sprintf("(define-fun t!%d () %s %s)", n.ID, n.S.String(), n.body()))
		default:
			s.send(fmt.Sprintf("(define-fun t!%d () %s %s)", n.ID, n.S.String(), n.body()))
		}
		s.defined[n.ID] = true
		stack = stack[:len(stack)-1]
	}
}

func (s *Solver) Assert(c *Ctx, t *Term) {
	s.define(c, t)
	s.send("(assert " + t.ref() + ")")
}

func (s *Solver) readLine() (string, error) {
	line, err := s.out.ReadString('\n')
	return strings.TrimSpace(line), err
}

// CheckSat checks satisfiability of the asserted formulas plus the
// optional extra assumption (not retained).
func (s *Solver) CheckSat(c *Ctx, extra *Term) Result {
	t0 := time.Now()
	defer func() { s.Time += time.Since(t0); s.Queries++ }()
	if s.dead {
		return Unknown
	}
	if extra != nil {
		s.define(c, extra)
		s.send("(push 1)")
		s.send("(assert " + extra.ref() + ")")
	}
	s.send("(check-sat)")
	res := Unknown
	for {
		line, err := s.readLine()
		if err != nil {
			s.dead = true
			s.Errors = append(s.Errors, "read: "+err.Error())
			return Unknown
		}
		if line == "" {
			continue
		}
		if line == "sat" {
			res = Sat
			break
		}
		if line == "unsat" {
			res = Unsat
			break
		}
		if line == "unknown" || strings.HasPrefix(line, "timeout") {
			res = Unknown
			break
		}
		if strings.HasPrefix(line, "(error") {
			s.Errors = append(s.Errors, line)
			// an error line makes this query inconclusive; keep reading for the verdict
			res = Unknown
			s.drainVerdict()
			if extra != nil {
				s.send("(pop 1)")
			}
			return Unknown
		}
		// unexpected output: ignore
	}
	if extra != nil && res != Sat {
		s.send("(pop 1)")
	}
	if extra != nil && res == Sat {
		// caller may want the model: keep the frame until PopModel
		s.pendingPop = true
	}
	return res
}

func (s *Solver) drainVerdict() {
	for {
		line, err := s.readLine()
		if err != nil {
			s.dead = true
			return
		}
		if line == "sat" || line == "unsat" || line == "unknown" {
			return
		}
	}
}

// PopModel must be called after a Sat result of CheckSat with extra != nil
// once the model has been read (or is not needed).
func (s *Solver) PopModel() {
	if s.pendingPop {
		for ; s.extraFrames > 0; s.extraFrames-- {
			s.send("(pop 1)")
		}
		s.send("(pop 1)")
		s.pendingPop = false
	}
}

// EvalBV returns the model value of a bit-vector term (after a Sat, inside the model frame).
func (s *Solver) EvalBV(c *Ctx, t *Term) (*big.Int, error) {
	if t.IsConst() {
		return constBig(t), nil
	}
	s.define(c, t)
	s.send("(get-value (" + t.ref() + "))")
	txt, err := s.readSexp()
	if err != nil {
		return nil, err
	}
	if strings.HasPrefix(txt, "(error") {
		return nil, fmt.Errorf("get-value: %s", txt)
	}
	sx, _ := parseSexp(txt, 0)
	if sx == nil || len(sx.list) != 1 || len(sx.list[0].list) != 2 {
		return nil, fmt.Errorf("get-value: unexpected answer %.80s", txt)
	}
	mv, ok := sexpToVal(sx.list[0].list[1])
	if !ok || mv.V == nil {
		return nil, fmt.Errorf("get-value: unparsed value %.80s", txt)
	}
	return mv.V, nil
}

// TryPin adds t inside the pending model frame if the model stays satisfiable
// (a nested frame is kept in that case and removed by PopModel); it reports
// whether the constraint was kept.
func (s *Solver) TryPin(c *Ctx, t *Term) bool {
	if !s.pendingPop || s.dead {
		return false
	}
	s.define(c, t)
	s.send("(push 1)")
	s.send("(assert " + t.ref() + ")")
	s.send("(check-sat)")
	for {
		line, err := s.readLine()
		if err != nil {
			s.dead = true
			return false
		}
		if line == "" {
			continue
		}
		if line == "sat" {
			s.extraFrames++
			return true
		}
		if line == "unsat" || line == "unknown" || strings.HasPrefix(line, "timeout") {
			s.send("(pop 1)")
			// restore a model for the enclosing frame
			s.send("(check-sat)")
			for {
				l2, err := s.readLine()
				if err != nil {
					s.dead = true
					return false
				}
				if l2 == "sat" || l2 == "unsat" || l2 == "unknown" {
					break
				}
			}
			return false
		}
		if strings.HasPrefix(line, "(error") {
			s.Errors = append(s.Errors, line)
			s.drainVerdict()
			s.send("(pop 1)")
			return false
		}
	}
}

// Model value
type MVal struct {
	IsBool bool
	B      bool
	IsInt  bool
	W      int
	V      *big.Int
}

func (v MVal) String() string {
	if v.IsBool {
		return fmt.Sprint(v.B)
	}
	if v.IsInt {
		return v.V.String()
	}
	return fmt.Sprintf("0x%s/%d", v.V.Text(16), v.W)
}

// Values reads model values of the given variables (after a Sat).
func (s *Solver) Values(vars []*Term) (map[string]MVal, error) {
	res := map[string]MVal{}
	if len(vars) == 0 {
		return res, nil
	}
	if s.dead {
		return nil, fmt.Errorf("solver dead")
	}
	for start := 0; start < len(vars); start += 200 {
		end := start + 200
		if end > len(vars) {
			end = len(vars)
		}
		var names []string
		for _, v := range vars[start:end] {
			if !s.defined[v.ID] {
				// variable not mentioned in any assertion: any value works
				continue
			}
			names = append(names, QuoteName(v.Name))
		}
		if len(names) == 0 {
			continue
		}
		s.send("(get-value (" + strings.Join(names, " ") + "))")
		txt, err := s.readSexp()
		if err != nil {
			return nil, err
		}
		if strings.HasPrefix(txt, "(error") {
			return nil, fmt.Errorf("get-value: %s", txt)
		}
		sx, _ := parseSexp(txt, 0)
		for _, pair := range sx.list {
			if len(pair.list) != 2 {
				continue
			}
			name := strings.Trim(pair.list[0].atom, "|")
			mv, ok := sexpToVal(pair.list[1])
			if ok {
				res[name] = mv
			}
		}
	}
	for _, v := range vars {
		if _, ok := res[v.Name]; !ok {
			switch v.S.K {
			case KBool:
				res[v.Name] = MVal{IsBool: true}
			case KInt:
				res[v.Name] = MVal{IsInt: true, V: new(big.Int)}
			case KBV:
				res[v.Name] = MVal{W: v.S.W, V: new(big.Int)}
			}
		}
	}
	return res, nil
}

// readSexp reads one balanced s-expression from the solver output.
func (s *Solver) readSexp() (string, error) {
	var sb strings.Builder
	depth := 0
	started := false
	inBar := false
	for {
		b, err := s.out.ReadByte()
		if err != nil {
			s.dead = true
			return "", err
		}
		if !started {
			if b == ' ' || b == '\n' || b == '\r' || b == '\t' {
				continue
			}
			started = true
		}
		sb.WriteByte(b)
		if b == '|' {
			inBar = !inBar
		}
		if inBar {
			continue
		}
		if b == '(' {
			depth++
		} else if b == ')' {
			depth--
			if depth == 0 {
				return sb.String(), nil
			}
		} else if depth == 0 && (b == '\n') {
			return strings.TrimSpace(sb.String()), nil
		}
	}
}

type sexp struct {
	atom string
	list []*sexp
	isL  bool
}

func parseSexp(s string, i int) (*sexp, int) {
	for i < len(s) && (s[i] == ' ' || s[i] == '\n' || s[i] == '\t' || s[i] == '\r') {
		i++
	}
	if i >= len(s) {
		return &sexp{}, i
	}
	if s[i] == '(' {
		n := &sexp{isL: true}
		i++
		for {
			for i < len(s) && (s[i] == ' ' || s[i] == '\n' || s[i] == '\t' || s[i] == '\r') {
				i++
			}
			if i >= len(s) {
				return n, i
			}
			if s[i] == ')' {
				return n, i + 1
			}
			var c *sexp
			c, i = parseSexp(s, i)
			n.list = append(n.list, c)
		}
	}
	j := i
	if s[i] == '|' {
		j = i + 1
		for j < len(s) && s[j] != '|' {
			j++
		}
		j++
		return &sexp{atom: s[i:j]}, j
	}
	for j < len(s) && s[j] != ' ' && s[j] != ')' && s[j] != '(' && s[j] != '\n' {
		j++
	}
	return &sexp{atom: s[i:j]}, j
}

func sexpToVal(x *sexp) (MVal, bool) {
	if !x.isL {
		a := x.atom
		switch {
		case a == "true":
			return MVal{IsBool: true, B: true}, true
		case a == "false":
			return MVal{IsBool: true, B: false}, true
		case strings.HasPrefix(a, "#x"):
			v, ok := new(big.Int).SetString(a[2:], 16)
			return MVal{W: 4 * (len(a) - 2), V: v}, ok
		case strings.HasPrefix(a, "#b"):
			v, ok := new(big.Int).SetString(a[2:], 2)
			return MVal{W: len(a) - 2, V: v}, ok
		default:
			v, ok := new(big.Int).SetString(a, 10)
			return MVal{IsInt: true, V: v}, ok
		}
	}
	// (- n)  or (_ bvN w)
	if len(x.list) == 2 && x.list[0].atom == "-" {
		v, ok := sexpToVal(x.list[1])
		if ok && v.IsInt {
			v.V = new(big.Int).Neg(v.V)
			return v, true
		}
	}
	if len(x.list) == 3 && x.list[0].atom == "_" && strings.HasPrefix(x.list[1].atom, "bv") {
		v, ok := new(big.Int).SetString(x.list[1].atom[2:], 10)
		var w int
		fmt.Sscanf(x.list[2].atom, "%d", &w)
		return MVal{W: w, V: v}, ok
	}
	return MVal{}, false
}

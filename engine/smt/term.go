// Package smt: hash-consed SMT terms (Bool, BitVec, Int, Array) with light
// simplification, SMT-LIB2 printing and a pipe to an external solver.
package smt

import (
	"fmt"
	"math/big"
	"strconv"
	"strings"
)

type Kind uint8

const (
	KBool Kind = iota
	KBV
	KInt
	KArr
)

type Sort struct {
	K  Kind
	W  int // bit-vector width, or array index width
	EW int // array element width
}

var BoolSort = Sort{K: KBool}
var IntSort = Sort{K: KInt}

func BV(w int) Sort           { return Sort{K: KBV, W: w} }
func ArrSort(iw, ew int) Sort { return Sort{K: KArr, W: iw, EW: ew} }

func (s Sort) String() string {
	switch s.K {
	case KBool:
		return "Bool"
	case KBV:
		return fmt.Sprintf("(_ BitVec %d)", s.W)
	case KInt:
		return "Int"
	case KArr:
		return fmt.Sprintf("(Array (_ BitVec %d) (_ BitVec %d))", s.W, s.EW)
	}
	return "?"
}

type Op uint8

const (
	OConst Op = iota
	OVar
	ONot
	OAnd
	OOr
	OIte
	OEq
	OBvAdd
	OBvSub
	OBvMul
	OBvUDiv
	OBvSDiv
	OBvURem
	OBvSRem
	OBvAnd
	OBvOr
	OBvXor
	OBvNot
	OBvNeg
	OBvShl
	OBvLshr
	OBvAshr
	OBvUlt
	OBvUle
	OBvSlt
	OBvSle
	OConcat
	OExtract
	OZeroExt
	OSignExt
	OIntAdd
	OIntSub
	OIntMul
	OIntDiv
	OIntMod
	OIntNeg
	OIntAbs
	OIntLt
	OIntLe
	OInt2BV
	OBV2Nat
	OSelect
	OStore
	OConstArr
	OApp
)

var opName = map[Op]string{
	ONot: "not", OAnd: "and", OOr: "or", OIte: "ite", OEq: "=",
	OBvAdd: "bvadd", OBvSub: "bvsub", OBvMul: "bvmul", OBvUDiv: "bvudiv", OBvSDiv: "bvsdiv",
	OBvURem: "bvurem", OBvSRem: "bvsrem", OBvAnd: "bvand", OBvOr: "bvor", OBvXor: "bvxor",
	OBvNot: "bvnot", OBvNeg: "bvneg", OBvShl: "bvshl", OBvLshr: "bvlshr", OBvAshr: "bvashr",
	OBvUlt: "bvult", OBvUle: "bvule", OBvSlt: "bvslt", OBvSle: "bvsle", OConcat: "concat",
	OIntAdd: "+", OIntSub: "-", OIntMul: "*", OIntDiv: "div", OIntMod: "mod", OIntNeg: "-", OIntAbs: "abs",
	OIntLt: "<", OIntLe: "<=", OBV2Nat: "bv2nat", OSelect: "select", OStore: "store",
}

type Term struct {
	Op   Op
	S    Sort
	Args []*Term
	V    uint64   // const value for BV width<=64, or bool (0/1)
	Big  *big.Int // const for Int or wide BV
	Name string   // var / UF name
	A, B int      // extract hi/lo; ext amount
	ID   int
}

// UF signature
type UFSig struct {
	Name string
	Args []Sort
	Ret  Sort
}

type Ctx struct {
	tab   map[string]*Term
	n     int
	Vars  []*Term // declared variables in order
	varBy map[string]*Term
	UFs   map[string]*UFSig
	UFOrd []string
	// Injective names uninterpreted unary functions that are injective by
	// construction of the model that introduced them.
	Injective map[string]bool
	// Ranged maps the ID of an Int term to w when the term is constrained (by
	// an assertion the creator adds) to the signed w-bit range.
	Ranged map[int]int
	True  *Term
	False *Term
}

func NewCtx() *Ctx {
	c := &Ctx{tab: map[string]*Term{}, varBy: map[string]*Term{}, UFs: map[string]*UFSig{}}
	c.True = c.mk(&Term{Op: OConst, S: BoolSort, V: 1})
	c.False = c.mk(&Term{Op: OConst, S: BoolSort, V: 0})
	return c
}

func (c *Ctx) NumTerms() int { return c.n }

// SetRanged records that Int term t lies in the signed w-bit range.
func (c *Ctx) SetRanged(t *Term, w int) {
	if c.Ranged == nil {
		c.Ranged = map[int]int{}
	}
	c.Ranged[t.ID] = w
}

// SetInjective declares the unary uninterpreted function name injective.
func (c *Ctx) SetInjective(name string) {
	if c.Injective == nil {
		c.Injective = map[string]bool{}
	}
	c.Injective[name] = true
}

func (c *Ctx) key(t *Term) string {
	var sb strings.Builder
	sb.WriteByte(byte(t.Op))
	sb.WriteByte(byte(t.S.K))
	sb.WriteString(strconv.Itoa(t.S.W))
	if t.S.K == KArr {
		sb.WriteByte('/')
		sb.WriteString(strconv.Itoa(t.S.EW))
	}
	switch t.Op {
	case OConst:
		sb.WriteByte(':')
		if t.Big != nil {
			sb.WriteString(t.Big.String())
		} else {
			sb.WriteString(strconv.FormatUint(t.V, 16))
		}
	case OVar, OApp:
		sb.WriteByte(':')
		sb.WriteString(t.Name)
	case OExtract, OZeroExt, OSignExt:
		sb.WriteByte(':')
		sb.WriteString(strconv.Itoa(t.A))
		sb.WriteByte(',')
		sb.WriteString(strconv.Itoa(t.B))
	}
	for _, a := range t.Args {
		sb.WriteByte(' ')
		sb.WriteString(strconv.Itoa(a.ID))
	}
	return sb.String()
}

func (c *Ctx) mk(t *Term) *Term {
	k := c.key(t)
	if o, ok := c.tab[k]; ok {
		return o
	}
	c.n++
	t.ID = c.n
	c.tab[k] = t
	return t
}

func mask(w int) uint64 {
	if w >= 64 {
		return ^uint64(0)
	}
	return (uint64(1) << uint(w)) - 1
}

// MaskW returns the all-ones value of width w (w<=64).
func MaskW(w int) uint64 { return mask(w) }

func (t *Term) IsConst() bool { return t.Op == OConst }
func (t *Term) IsTrue() bool  { return t.Op == OConst && t.S.K == KBool && t.V == 1 }
func (t *Term) IsFalse() bool { return t.Op == OConst && t.S.K == KBool && t.V == 0 }

// Uint64 returns the value of a BV constant of width <= 64.
func (t *Term) Uint64() uint64 { return t.V }

// Int64 returns the sign-extended value of a BV constant of width <= 64.
func (t *Term) Int64() int64 {
	w := t.S.W
	if w >= 64 {
		return int64(t.V)
	}
	if t.V&(uint64(1)<<uint(w-1)) != 0 {
		return int64(t.V | ^mask(w))
	}
	return int64(t.V)
}

func (c *Ctx) Bool(b bool) *Term {
	if b {
		return c.True
	}
	return c.False
}

func (c *Ctx) BVConst(w int, v uint64) *Term {
	if w > 64 {
		return c.BVBig(w, new(big.Int).SetUint64(v))
	}
	return c.mk(&Term{Op: OConst, S: BV(w), V: v & mask(w)})
}

func (c *Ctx) BVBig(w int, v *big.Int) *Term {
	m := new(big.Int).Lsh(big.NewInt(1), uint(w))
	v = new(big.Int).Mod(v, m)
	if w <= 64 {
		return c.BVConst(w, v.Uint64())
	}
	return c.mk(&Term{Op: OConst, S: BV(w), Big: v})
}

func (c *Ctx) IntConst(v *big.Int) *Term {
	return c.mk(&Term{Op: OConst, S: IntSort, Big: new(big.Int).Set(v)})
}
func (c *Ctx) IntConst64(v int64) *Term { return c.IntConst(big.NewInt(v)) }

func (c *Ctx) Var(name string, s Sort) *Term {
	if v, ok := c.varBy[name]; ok {
		if v.S != s {
			panic("smt: variable " + name + " redeclared with different sort")
		}
		return v
	}
	v := c.mk(&Term{Op: OVar, S: s, Name: name})
	c.varBy[name] = v
	c.Vars = append(c.Vars, v)
	return v
}

func (c *Ctx) App(name string, ret Sort, args ...*Term) *Term {
	sig, ok := c.UFs[name]
	if !ok {
		sig = &UFSig{Name: name, Ret: ret}
		for _, a := range args {
			sig.Args = append(sig.Args, a.S)
		}
		c.UFs[name] = sig
		c.UFOrd = append(c.UFOrd, name)
	} else {
		if len(sig.Args) != len(args) || sig.Ret != ret {
			panic("smt: UF " + name + " used with different signature")
		}
		for i, a := range args {
			if sig.Args[i] != a.S {
				panic("smt: UF " + name + " used with different argument sorts")
			}
		}
	}
	return c.mk(&Term{Op: OApp, S: ret, Name: name, Args: args})
}

// ---------- boolean ----------

func (c *Ctx) Not(a *Term) *Term {
	if a.IsConst() {
		return c.Bool(a.V == 0)
	}
	if a.Op == ONot {
		return a.Args[0]
	}
	return c.mk(&Term{Op: ONot, S: BoolSort, Args: []*Term{a}})
}

func (c *Ctx) And(a, b *Term) *Term {
	if a.IsFalse() || b.IsFalse() {
		return c.False
	}
	if a.IsTrue() {
		return b
	}
	if b.IsTrue() {
		return a
	}
	if a == b {
		return a
	}
	if (a.Op == ONot && a.Args[0] == b) || (b.Op == ONot && b.Args[0] == a) {
		return c.False
	}
	return c.mk(&Term{Op: OAnd, S: BoolSort, Args: []*Term{a, b}})
}

func (c *Ctx) Or(a, b *Term) *Term {
	if a.IsTrue() || b.IsTrue() {
		return c.True
	}
	if a.IsFalse() {
		return b
	}
	if b.IsFalse() {
		return a
	}
	if a == b {
		return a
	}
	if (a.Op == ONot && a.Args[0] == b) || (b.Op == ONot && b.Args[0] == a) {
		return c.True
	}
	return c.mk(&Term{Op: OOr, S: BoolSort, Args: []*Term{a, b}})
}

func (c *Ctx) AndN(ts ...*Term) *Term {
	r := c.True
	for _, t := range ts {
		r = c.And(r, t)
	}
	return r
}

func (c *Ctx) OrN(ts ...*Term) *Term {
	r := c.False
	for _, t := range ts {
		r = c.Or(r, t)
	}
	return r
}

func (c *Ctx) Implies(a, b *Term) *Term { return c.Or(c.Not(a), b) }

func (c *Ctx) Ite(cond, a, b *Term) *Term {
	if cond.IsTrue() {
		return a
	}
	if cond.IsFalse() {
		return b
	}
	if a == b {
		return a
	}
	if a.S != b.S {
		panic(fmt.Sprintf("smt: ite sort mismatch %v %v", a.S, b.S))
	}
	if a.S.K == KBool {
		if a.IsTrue() && b.IsFalse() {
			return cond
		}
		if a.IsFalse() && b.IsTrue() {
			return c.Not(cond)
		}
		if a.IsTrue() {
			return c.Or(cond, b)
		}
		if a.IsFalse() {
			return c.And(c.Not(cond), b)
		}
		if b.IsTrue() {
			return c.Or(c.Not(cond), a)
		}
		if b.IsFalse() {
			return c.And(cond, a)
		}
	}
	return c.mk(&Term{Op: OIte, S: a.S, Args: []*Term{cond, a, b}})
}

func constEq(a, b *Term) bool {
	if a.Big != nil || b.Big != nil {
		if a.Big == nil || b.Big == nil {
			return false
		}
		return a.Big.Cmp(b.Big) == 0
	}
	return a.V == b.V
}

func (c *Ctx) Eq(a, b *Term) *Term {
	if a == b {
		return c.True
	}
	if a.S != b.S {
		panic(fmt.Sprintf("smt: eq sort mismatch %v %v", a.S, b.S))
	}
	if a.IsConst() && b.IsConst() {
		return c.Bool(constEq(a, b))
	}
	if a.S.K == KBool {
		if a.IsTrue() {
			return b
		}
		if b.IsTrue() {
			return a
		}
		if a.IsFalse() {
			return c.Not(b)
		}
		if b.IsFalse() {
			return c.Not(a)
		}
	}
	// ite(c, k1, k2) == k  with constants
	if b.IsConst() && a.Op == OIte && a.Args[1].IsConst() && a.Args[2].IsConst() {
		return c.Ite(a.Args[0], c.Eq(a.Args[1], b), c.Eq(a.Args[2], b))
	}
	if a.IsConst() && b.Op == OIte && b.Args[1].IsConst() && b.Args[2].IsConst() {
		return c.Ite(b.Args[0], c.Eq(b.Args[1], a), c.Eq(b.Args[2], a))
	}
	// f(x) == f(y)  <=>  x == y for uninterpreted functions declared injective
	// (they carry an inverse axiom anyway; this keeps long chains out of the solver)
	if a.Op == OApp && b.Op == OApp && a.Name == b.Name && len(a.Args) == 1 && len(b.Args) == 1 && c.Injective[a.Name] {
		return c.Eq(a.Args[0], b.Args[0])
	}
	// x ^ k == y ^ k  <=>  x == y ;  x ^ k1 == x ^ k2  <=>  k1 == k2
	if a.Op == OBvXor && b.Op == OBvXor {
		for i := 0; i < 2; i++ {
			for j := 0; j < 2; j++ {
				if a.Args[i] == b.Args[j] {
					return c.Eq(a.Args[1-i], b.Args[1-j])
				}
			}
		}
	}
	// zext(x) == zext(y)  <=>  x == y  (same source width)
	if a.Op == OZeroExt && b.Op == OZeroExt && a.Args[0].S == b.Args[0].S {
		return c.Eq(a.Args[0], b.Args[0])
	}
	if a.ID > b.ID {
		a, b = b, a
	}
	return c.mk(&Term{Op: OEq, S: BoolSort, Args: []*Term{a, b}})
}

func (c *Ctx) Ne(a, b *Term) *Term { return c.Not(c.Eq(a, b)) }

// ---------- bit-vectors ----------

func sext(v uint64, w int) int64 {
	if w >= 64 {
		return int64(v)
	}
	if v&(uint64(1)<<uint(w-1)) != 0 {
		return int64(v | ^mask(w))
	}
	return int64(v)
}

func (c *Ctx) bvFold(op Op, w int, x, y uint64) (uint64, bool) {
	m := mask(w)
	switch op {
	case OBvAdd:
		return (x + y) & m, true
	case OBvSub:
		return (x - y) & m, true
	case OBvMul:
		return (x * y) & m, true
	case OBvAnd:
		return x & y, true
	case OBvOr:
		return x | y, true
	case OBvXor:
		return x ^ y, true
	case OBvUDiv:
		if y == 0 {
			return m, true
		}
		return x / y, true
	case OBvURem:
		if y == 0 {
			return x, true
		}
		return x % y, true
	case OBvSDiv:
		sx, sy := sext(x, w), sext(y, w)
		if sy == 0 {
			if sx < 0 {
				return 1, true
			}
			return m, true
		}
		if sy == -1 {
			return uint64(-sx) & m, true
		}
		return uint64(sx/sy) & m, true
	case OBvSRem:
		sx, sy := sext(x, w), sext(y, w)
		if sy == 0 {
			return x, true
		}
		if sy == -1 {
			return 0, true
		}
		return uint64(sx%sy) & m, true
	case OBvShl:
		if y >= uint64(w) {
			return 0, true
		}
		return (x << y) & m, true
	case OBvLshr:
		if y >= uint64(w) {
			return 0, true
		}
		return x >> y, true
	case OBvAshr:
		sx := sext(x, w)
		if y >= uint64(w) {
			if sx < 0 {
				return m, true
			}
			return 0, true
		}
		return uint64(sx>>y) & m, true
	}
	return 0, false
}

func (c *Ctx) BvBin(op Op, a, b *Term) *Term {
	if a.S != b.S || a.S.K != KBV {
		panic(fmt.Sprintf("smt: bv op %s sort mismatch %v %v", opName[op], a.S, b.S))
	}
	w := a.S.W
	if a.IsConst() && b.IsConst() && w <= 64 {
		if v, ok := c.bvFold(op, w, a.V, b.V); ok {
			return c.BVConst(w, v)
		}
	}
	if w <= 64 {
		// identities
		switch op {
		case OBvAdd, OBvOr, OBvXor:
			if a.IsConst() && a.V == 0 {
				return b
			}
			if b.IsConst() && b.V == 0 {
				return a
			}
		case OBvSub, OBvShl, OBvLshr, OBvAshr:
			if b.IsConst() && b.V == 0 {
				return a
			}
		case OBvAnd:
			if a.IsConst() && a.V == 0 || b.IsConst() && b.V == 0 {
				return c.BVConst(w, 0)
			}
			if a.IsConst() && a.V == mask(w) {
				return b
			}
			if b.IsConst() && b.V == mask(w) {
				return a
			}
		case OBvMul:
			if a.IsConst() && a.V == 1 {
				return b
			}
			if b.IsConst() && b.V == 1 {
				return a
			}
			if a.IsConst() && a.V == 0 || b.IsConst() && b.V == 0 {
				return c.BVConst(w, 0)
			}
		}
		if (op == OBvShl || op == OBvLshr) && b.IsConst() && b.V >= uint64(w) {
			return c.BVConst(w, 0)
		}
		if (op == OBvAnd || op == OBvOr) && a == b {
			return a
		}
		if (op == OBvXor || op == OBvSub) && a == b {
			return c.BVConst(w, 0)
		}
	}
	return c.mk(&Term{Op: op, S: a.S, Args: []*Term{a, b}})
}

func (c *Ctx) BvNot(a *Term) *Term {
	if a.IsConst() && a.S.W <= 64 {
		return c.BVConst(a.S.W, ^a.V)
	}
	if a.Op == OBvNot {
		return a.Args[0]
	}
	return c.mk(&Term{Op: OBvNot, S: a.S, Args: []*Term{a}})
}

func (c *Ctx) BvNeg(a *Term) *Term {
	if a.IsConst() && a.S.W <= 64 {
		return c.BVConst(a.S.W, -a.V)
	}
	return c.mk(&Term{Op: OBvNeg, S: a.S, Args: []*Term{a}})
}

func (c *Ctx) BvCmp(op Op, a, b *Term) *Term {
	// signed comparison of a ranged integer (as bit-vector) with a constant: compare as integers
	if op == OBvSlt || op == OBvSle {
		iop := OIntLt
		if op == OBvSle {
			iop = OIntLe
		}
		if a.Op == OInt2BV && c.Ranged[a.Args[0].ID] == a.S.W && b.IsConst() && b.S.W <= 64 {
			return c.IntCmp(iop, a.Args[0], c.IntConst64(sext(b.V, b.S.W)))
		}
		if b.Op == OInt2BV && c.Ranged[b.Args[0].ID] == b.S.W && a.IsConst() && a.S.W <= 64 {
			return c.IntCmp(iop, c.IntConst64(sext(a.V, a.S.W)), b.Args[0])
		}
	}
	if a.S != b.S || a.S.K != KBV {
		panic(fmt.Sprintf("smt: bv cmp sort mismatch %v %v", a.S, b.S))
	}
	w := a.S.W
	if a.IsConst() && b.IsConst() && w <= 64 {
		switch op {
		case OBvUlt:
			return c.Bool(a.V < b.V)
		case OBvUle:
			return c.Bool(a.V <= b.V)
		case OBvSlt:
			return c.Bool(sext(a.V, w) < sext(b.V, w))
		case OBvSle:
			return c.Bool(sext(a.V, w) <= sext(b.V, w))
		}
	}
	if a == b {
		return c.Bool(op == OBvUle || op == OBvSle)
	}
	if w <= 64 {
		if op == OBvUlt && b.IsConst() && b.V == 0 {
			return c.False
		}
		if op == OBvUle && a.IsConst() && a.V == 0 {
			return c.True
		}
	}
	return c.mk(&Term{Op: op, S: BoolSort, Args: []*Term{a, b}})
}

func (c *Ctx) Concat(hi, lo *Term) *Term {
	w := hi.S.W + lo.S.W
	if hi.IsConst() && lo.IsConst() {
		if w <= 64 {
			return c.BVConst(w, hi.V<<uint(lo.S.W)|lo.V)
		}
		h := constBig(hi)
		l := constBig(lo)
		return c.BVBig(w, new(big.Int).Or(new(big.Int).Lsh(h, uint(lo.S.W)), l))
	}
	// concat(extract(h,m+1,x), extract(m,l,x)) = extract(h,l,x)
	if hi.Op == OExtract && lo.Op == OExtract && hi.Args[0] == lo.Args[0] && hi.B == lo.A+1 {
		return c.Extract(hi.A, lo.B, hi.Args[0])
	}
	return c.mk(&Term{Op: OConcat, S: BV(w), Args: []*Term{hi, lo}})
}

func constBig(t *Term) *big.Int {
	if t.Big != nil {
		return new(big.Int).Set(t.Big)
	}
	return new(big.Int).SetUint64(t.V)
}

// ConstBig returns the unsigned value of a constant BV or the value of an Int constant.
func ConstBig(t *Term) *big.Int { return constBig(t) }

func (c *Ctx) Extract(hi, lo int, a *Term) *Term {
	w := hi - lo + 1
	if lo == 0 && w == a.S.W {
		return a
	}
	if hi >= a.S.W || lo < 0 || w <= 0 {
		panic("smt: bad extract")
	}
	if a.IsConst() {
		if a.S.W <= 64 {
			return c.BVConst(w, a.V>>uint(lo))
		}
		v := new(big.Int).Rsh(constBig(a), uint(lo))
		return c.BVBig(w, v)
	}
	switch a.Op {
	case OConcat:
		lw := a.Args[1].S.W
		if hi < lw {
			return c.Extract(hi, lo, a.Args[1])
		}
		if lo >= lw {
			return c.Extract(hi-lw, lo-lw, a.Args[0])
		}
	case OExtract:
		return c.Extract(hi+a.B, lo+a.B, a.Args[0])
	case OZeroExt:
		iw := a.Args[0].S.W
		if hi < iw {
			return c.Extract(hi, lo, a.Args[0])
		}
		if lo >= iw {
			return c.BVConst(w, 0)
		}
	case OSignExt:
		iw := a.Args[0].S.W
		if hi < iw {
			return c.Extract(hi, lo, a.Args[0])
		}
	}
	return c.mk(&Term{Op: OExtract, S: BV(w), Args: []*Term{a}, A: hi, B: lo})
}

func (c *Ctx) ZeroExt(a *Term, to int) *Term {
	n := to - a.S.W
	if n == 0 {
		return a
	}
	if n < 0 {
		panic("smt: zeroext shrink")
	}
	if a.IsConst() {
		if to <= 64 {
			return c.BVConst(to, a.V)
		}
		return c.BVBig(to, constBig(a))
	}
	if a.Op == OZeroExt {
		return c.ZeroExt(a.Args[0], to)
	}
	return c.mk(&Term{Op: OZeroExt, S: BV(to), Args: []*Term{a}, A: n})
}

func (c *Ctx) SignExt(a *Term, to int) *Term {
	n := to - a.S.W
	if n == 0 {
		return a
	}
	if n < 0 {
		panic("smt: signext shrink")
	}
	if a.IsConst() && to <= 64 {
		return c.BVConst(to, uint64(sext(a.V, a.S.W)))
	}
	return c.mk(&Term{Op: OSignExt, S: BV(to), Args: []*Term{a}, A: n})
}

// ---------- integers ----------

func (c *Ctx) IntBin(op Op, a, b *Term) *Term {
	if a.S.K != KInt || b.S.K != KInt {
		panic("smt: int op on non-int")
	}
	if a.IsConst() && b.IsConst() {
		r := new(big.Int)
		switch op {
		case OIntAdd:
			return c.IntConst(r.Add(a.Big, b.Big))
		case OIntSub:
			return c.IntConst(r.Sub(a.Big, b.Big))
		case OIntMul:
			return c.IntConst(r.Mul(a.Big, b.Big))
		case OIntDiv:
			if b.Big.Sign() != 0 {
				return c.IntConst(r.Div(a.Big, b.Big))
			}
		case OIntMod:
			if b.Big.Sign() != 0 {
				return c.IntConst(r.Mod(a.Big, b.Big))
			}
		}
	}
	switch op {
	case OIntAdd:
		if a.IsConst() && a.Big.Sign() == 0 {
			return b
		}
		if b.IsConst() && b.Big.Sign() == 0 {
			return a
		}
	case OIntSub:
		if b.IsConst() && b.Big.Sign() == 0 {
			return a
		}
	case OIntMul:
		if a.IsConst() && a.Big.Sign() == 0 || b.IsConst() && b.Big.Sign() == 0 {
			return c.IntConst64(0)
		}
		if a.IsConst() && a.Big.IsInt64() && a.Big.Int64() == 1 {
			return b
		}
		if b.IsConst() && b.Big.IsInt64() && b.Big.Int64() == 1 {
			return a
		}
	}
	return c.mk(&Term{Op: op, S: IntSort, Args: []*Term{a, b}})
}

func (c *Ctx) IntNeg(a *Term) *Term {
	if a.IsConst() {
		return c.IntConst(new(big.Int).Neg(a.Big))
	}
	return c.mk(&Term{Op: OIntNeg, S: IntSort, Args: []*Term{a}})
}

func (c *Ctx) IntAbs(a *Term) *Term {
	if a.IsConst() {
		return c.IntConst(new(big.Int).Abs(a.Big))
	}
	return c.mk(&Term{Op: OIntAbs, S: IntSort, Args: []*Term{a}})
}

func (c *Ctx) IntCmp(op Op, a, b *Term) *Term {
	if a.IsConst() && b.IsConst() {
		k := a.Big.Cmp(b.Big)
		if op == OIntLt {
			return c.Bool(k < 0)
		}
		return c.Bool(k <= 0)
	}
	if a == b {
		return c.Bool(op == OIntLe)
	}
	return c.mk(&Term{Op: op, S: BoolSort, Args: []*Term{a, b}})
}

// BV2Nat: unsigned value of a bit-vector as Int.
func (c *Ctx) BV2Nat(a *Term) *Term {
	if a.IsConst() {
		return c.IntConst(constBig(a))
	}
	return c.mk(&Term{Op: OBV2Nat, S: IntSort, Args: []*Term{a}})
}

// BV2Int: signed value.
func (c *Ctx) BV2IntSigned(a *Term) *Term {
	w := a.S.W
	if a.IsConst() && w <= 64 {
		return c.IntConst64(sext(a.V, w))
	}
	if a.Op == OInt2BV && c.Ranged[a.Args[0].ID] == w {
		return a.Args[0] // the integer is known to fit the signed width
	}
	n := c.BV2Nat(a)
	half := new(big.Int).Lsh(big.NewInt(1), uint(w-1))
	full := new(big.Int).Lsh(big.NewInt(1), uint(w))
	return c.Ite(c.IntCmp(OIntLt, n, c.IntConst(half)), n, c.IntBin(OIntSub, n, c.IntConst(full)))
}

func (c *Ctx) Int2BV(a *Term, w int) *Term {
	if a.IsConst() {
		return c.BVBig(w, a.Big)
	}
	return c.mk(&Term{Op: OInt2BV, S: BV(w), Args: []*Term{a}, A: w})
}

// ---------- arrays ----------

func (c *Ctx) ConstArr(iw, ew int, v *Term) *Term {
	return c.mk(&Term{Op: OConstArr, S: ArrSort(iw, ew), Args: []*Term{v}})
}
func (c *Ctx) Select(a, i *Term) *Term {
	// read-over-write with constant indices
	for a.Op == OStore {
		if a.Args[1] == i {
			return a.Args[2]
		}
		if a.Args[1].IsConst() && i.IsConst() {
			a = a.Args[0]
			continue
		}
		break
	}
	if a.Op == OConstArr {
		return a.Args[0]
	}
	return c.mk(&Term{Op: OSelect, S: BV(a.S.EW), Args: []*Term{a, i}})
}
func (c *Ctx) Store(a, i, v *Term) *Term {
	return c.mk(&Term{Op: OStore, S: a.S, Args: []*Term{a, i, v}})
}

// ---------- printing ----------

func constStr(t *Term) string {
	switch t.S.K {
	case KBool:
		if t.V == 1 {
			return "true"
		}
		return "false"
	case KBV:
		w := t.S.W
		var v *big.Int
		if t.Big != nil {
			v = t.Big
		} else {
			v = new(big.Int).SetUint64(t.V)
		}
		if w%4 == 0 {
			s := v.Text(16)
			return "#x" + strings.Repeat("0", w/4-len(s)) + s
		}
		s := v.Text(2)
		return "#b" + strings.Repeat("0", w-len(s)) + s
	case KInt:
		if t.Big.Sign() < 0 {
			return "(- " + new(big.Int).Neg(t.Big).String() + ")"
		}
		return t.Big.String()
	}
	return "?"
}

func QuoteName(n string) string { return "|" + n + "|" }

func (t *Term) ref() string {
	switch t.Op {
	case OConst:
		return constStr(t)
	case OVar:
		return QuoteName(t.Name)
	}
	return "t!" + strconv.Itoa(t.ID)
}

func (t *Term) body() string {
	var sb strings.Builder
	switch t.Op {
	case OExtract:
		fmt.Fprintf(&sb, "((_ extract %d %d) %s)", t.A, t.B, t.Args[0].ref())
	case OZeroExt:
		fmt.Fprintf(&sb, "((_ zero_extend %d) %s)", t.A, t.Args[0].ref())
	case OSignExt:
		fmt.Fprintf(&sb, "((_ sign_extend %d) %s)", t.A, t.Args[0].ref())
	case OInt2BV:
		fmt.Fprintf(&sb, "((_ int2bv %d) %s)", t.A, t.Args[0].ref())
	case OConstArr:
		fmt.Fprintf(&sb, "((as const %s) %s)", t.S.String(), t.Args[0].ref())
	case OApp:
		if len(t.Args) == 0 {
			return QuoteName(t.Name)
		}
		sb.WriteString("(" + QuoteName(t.Name))
		for _, a := range t.Args {
			sb.WriteByte(' ')
			sb.WriteString(a.ref())
		}
		sb.WriteByte(')')
	default:
		sb.WriteString("(" + opName[t.Op])
		for _, a := range t.Args {
			sb.WriteByte(' ')
			sb.WriteString(a.ref())
		}
		sb.WriteByte(')')
	}
	return sb.String()
}

// String renders the term as a tree (debugging only; may be large).
func (t *Term) String() string {
	switch t.Op {
	case OConst:
		return constStr(t)
	case OVar:
		return t.Name
	}
	var sb strings.Builder
	t.str(&sb, 0)
	return sb.String()
}

func (t *Term) str(sb *strings.Builder, d int) {
	if d > 6 {
		sb.WriteString("…")
		return
	}
	switch t.Op {
	case OConst:
		sb.WriteString(constStr(t))
		return
	case OVar:
		sb.WriteString(t.Name)
		return
	case OExtract:
		fmt.Fprintf(sb, "(extract[%d:%d] ", t.A, t.B)
	case OZeroExt:
		fmt.Fprintf(sb, "(zext%d ", t.A)
	case OSignExt:
		fmt.Fprintf(sb, "(sext%d ", t.A)
	case OApp:
		sb.WriteString("(" + t.Name + " ")
	case OInt2BV:
		sb.WriteString("(int2bv ")
	case OConstArr:
		sb.WriteString("(constarr ")
	default:
		sb.WriteString("(" + opName[t.Op] + " ")
	}
	for i, a := range t.Args {
		if i > 0 {
			sb.WriteByte(' ')
		}
		a.str(sb, d+1)
	}
	sb.WriteByte(')')
}

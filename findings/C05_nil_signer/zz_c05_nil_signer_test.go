package consensus

// Demonstration for C05: a commit vote list item whose signature has no
// recovery id (64 bytes; it decodes fine from the wire) must make VerifyBlock
// reject the list, not crash the node.

import (
	"testing"

	"github.com/icon-project/goloop/common"
	"github.com/icon-project/goloop/common/crypto"
	"github.com/icon-project/goloop/common/db"
	"github.com/icon-project/goloop/common/wallet"
	"github.com/icon-project/goloop/module"
	"github.com/icon-project/goloop/service/state"
)

type zzC05Block struct {
	module.BlockData
}

func (b *zzC05Block) Height() int64 { return 5 }
func (b *zzC05Block) ID() []byte    { return []byte{1, 2} }

func TestVerifC05UnrecoverableSignatureIsRejectedNotPanic(t *testing.T) {
	w := wallet.New()
	v, err := state.ValidatorFromAddress(w.Address())
	if err != nil {
		t.Fatal(err)
	}
	vl, err := state.ValidatorSnapshotFromSlice(db.NewMapDB(), []module.Validator{v})
	if err != nil {
		t.Fatal(err)
	}
	sig, err := crypto.ParseSignature(make([]byte, 64))
	if err != nil {
		t.Fatal(err)
	}
	bvl := &blockCommitVoteList{Round: 0, BlockPartSetIDAndAppData: &PartSetIDAndAppData{CountWord: 1, Hash: []byte{1}}}
	bvl.Items = append(bvl.Items, blockCommitVoteItem{Timestamp: 1, Signature: common.Signature{Signature: sig}})
	defer func() {
		if r := recover(); r != nil {
			t.Fatalf("C05 VIOLATED: VerifyBlock panicked on an unrecoverable signature instead of rejecting the list: %v", r)
		}
	}()
	if _, err := bvl.VerifyBlock(&zzC05Block{}, vl); err == nil {
		t.Fatalf("C05 VIOLATED: list with an unrecoverable signature accepted")
	}
}

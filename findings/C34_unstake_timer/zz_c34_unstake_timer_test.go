package icsim

// Demonstration for the C34 known finding: through the real
// ExtensionStateImpl.SetStake (driven by the repository's own simulator) an
// account gets two unstake slots with the same expire height (two setStake
// calls lowering the stake in one block); raising the stake again removes the
// last slot together with the account's unstaking timer for that height, so the
// remaining slot is never paid out when its lock period ends.

import (
	"math/big"
	"testing"

	"github.com/icon-project/goloop/common/intconv"
	"github.com/icon-project/goloop/icon/icmodule"
	"github.com/icon-project/goloop/icon/iiss/icutils"
)

func TestVerifC34UnstakeTimerLost(t *testing.T) {
	c := NewSimConfig()
	env, err := NewEnv(c, icmodule.ValueToRevision(icmodule.LatestRevision))
	if err != nil {
		t.Fatalf("env: %v", err)
	}
	sim := env.Simulator()
	user := env.users[7]
	icx := func(n int64) *big.Int { return icutils.ToLoop(int(n)) }
	must := func(rs []Receipt, err error) {
		t.Helper()
		if err != nil {
			t.Fatalf("tx: %v", err)
		}
		for _, r := range rs {
			if !CheckReceiptSuccess(r) {
				t.Fatalf("receipt failed: %+v", r)
			}
		}
	}
	// raise the stake from 2000 to 3000 ICX (2000 stay delegated)
	must(sim.GoBySetStake(nil, user, icx(3000)))
	bal0 := sim.GetBalance(user)
	// one block, two setStake calls lowering the stake: two unstake slots
	// (tiny amounts, so that the stake-rate dependent lock period is the same for both)
	unit := big.NewInt(1000)
	s1 := new(big.Int).Sub(icx(3000), unit)
	s2 := new(big.Int).Sub(s1, unit)
	must(sim.GoByTransaction(nil, sim.SetStake(user, s1), sim.SetStake(user, s2)))
	js := sim.GetStakeInJSON(user)
	us := js["unstakes"].([]interface{})
	if len(us) != 2 {
		t.Fatalf("expected 2 unstake slots, got %v", js)
	}
	h0 := us[0].(map[string]interface{})["unstakeBlockHeight"].(int64)
	h1 := us[1].(map[string]interface{})["unstakeBlockHeight"].(int64)
	t.Logf("slots expire at %d and %d", h0, h1)
	if h0 != h1 {
		t.Skipf("the two slots got different expire heights (%d, %d): scenario needs equal heights", h0, h1)
	}
	// raise the stake by the amount of the last slot
	must(sim.GoBySetStake(nil, user, s1))
	js = sim.GetStakeInJSON(user)
	us = js["unstakes"].([]interface{})
	if len(us) != 1 {
		t.Fatalf("expected 1 unstake slot, got %v", js)
	}
	// run past the end of the lock period
	for sim.BlockHeight() <= h0+1 {
		if err := sim.Go(nil, 1); err != nil {
			t.Fatalf("go: %v", err)
		}
	}
	js = sim.GetStakeInJSON(user)
	bal1 := sim.GetBalance(user)
	t.Logf("height=%d stake info=%v balance delta=%s", sim.BlockHeight(), js, intconv.FormatBigInt(new(big.Int).Sub(bal1, bal0)))
	if us, _ := js["unstakes"].([]interface{}); len(us) != 0 {
		t.Errorf("C34 VIOLATED: at height %d the unstake slot expiring at %d is still pending and was not returned: %v", sim.BlockHeight(), h0, us)
	}
	if new(big.Int).Sub(bal1, bal0).Cmp(unit) != 0 {
		t.Errorf("C34 VIOLATED: the 1000 loop whose lock period ended were not returned to the owner (balance delta %s)", new(big.Int).Sub(bal1, bal0))
	}
}

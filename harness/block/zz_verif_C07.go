package block

// Harness for property C07 (imported blocks extend their parent with
// consistent height, link and time): the real manager.verifyNewBlock,
// verifyProofForLastBlock and blockV2.VerifyTimestamp over a candidate block
// with arbitrary header fields; the commit-vote proof verdict and the vote
// list's timestamp (median, checked in package consensus: VH_C07_median) are
// arbitrary values supplied by fakes.

import (
	"bytes"
	"errors"

	"github.com/icon-project/goloop/chain/base"
	"github.com/icon-project/goloop/common/db"
	"github.com/icon-project/goloop/module"
	"github.com/icon-project/goloop/zzverif/sym"
)

type vhC07SM struct {
	ServiceManager
	version int
}

func (s *vhC07SM) GetNextBlockVersion(result []byte) int { return s.version }

type vhC07Votes struct {
	module.CommitVoteSet
	ok bool
	ts int64
}

func (v *vhC07Votes) VerifyBlock(block module.BlockData, validators module.ValidatorList) ([]bool, error) {
	if !v.ok {
		return nil, errors.New("bad votes")
	}
	return nil, nil
}
func (v *vhC07Votes) Timestamp() int64 { return v.ts }
func (v *vhC07Votes) VoteRound() int32 { return 0 }

type vhC07PCM struct {
	module.BTPProofContextMap
	ok bool
}

func (p *vhC07PCM) Verify(srcUID []byte, height int64, round int32, bd module.BTPDigest, ntsdProves module.NTSDProofList) error {
	if !p.ok {
		return errors.New("bad nts proof")
	}
	return nil
}

type vhC07Prev struct {
	module.Block
	height int64
	ts     int64
	id     []byte
}

func (b *vhC07Prev) Height() int64    { return b.height }
func (b *vhC07Prev) Timestamp() int64 { return b.ts }
func (b *vhC07Prev) ID() []byte       { return b.id }
func (b *vhC07Prev) Result() []byte   { return nil }
func (b *vhC07Prev) Proposer() module.Address { return nil }
func (b *vhC07Prev) BTPDigest() (module.BTPDigest, error) { return nil, nil }
func (b *vhC07Prev) FinalizeHeader(dbase db.Database) error { return nil }
func (b *vhC07Prev) GetVoters(ctx base.BlockHandlerContext) (module.ValidatorList, error) {
	return nil, nil
}
func (b *vhC07Prev) VerifyTimestamp(prev module.BlockData, prevVoters module.ValidatorList) error {
	return nil
}

// the candidate: the real blockV2 with an arbitrary version on top
type vhC07Cand struct {
	*blockV2
	version int
}

func (c *vhC07Cand) Version() int { return c.version }

func VH_C07_verify_new_block() {
	required := int(sym.U8("required_version"))
	votesOK := sym.Bool("votes_ok")
	ntsOK := sym.Bool("nts_ok")
	median := sym.I64("votes_median")
	m := &manager{chainContext: &chainContext{sm: &vhC07SM{version: required}}, pcmForLastBlock: &vhC07PCM{ok: ntsOK}}
	prev := &vhC07Prev{height: sym.I64("prev_height"), ts: sym.I64("prev_ts"), id: sym.Bytes("prev_id", 2)}
	sym.Assume(sym.And(prev.height >= 0, prev.height < 1<<62))
	// the parent is the last finalized block or an unfinalised candidate above it
	fin := &vhC07Prev{height: sym.I64("finalized_height"), ts: 0, id: []byte{0xf1, 0x0a}}
	sym.Assume(sym.And(fin.height >= 0, fin.height <= prev.height))
	m.finalized = &bnode{block: fin}
	b := &vhC07Cand{
		blockV2: &blockV2{
			height:    sym.I64("height"),
			timestamp: sym.I64("ts"),
			prevID:    sym.Bytes("prev_link", 2),
			votes:     &vhC07Votes{ok: votesOK, ts: median},
		},
		version: int(sym.U8("version")),
	}
	_, err := m.verifyNewBlock(b, prev)
	linkOK := bytes.Equal(b.prevID, prev.id)
	timeOK := sym.Or(b.height <= 1, sym.And(b.timestamp == median, prev.ts < b.timestamp))
	want := sym.And(b.version == required, b.height == prev.height+1, linkOK, votesOK, ntsOK, timeOK)
	if err == nil {
		sym.Reach("accepted")
		sym.Assert(want, "an accepted block has the required version, parent height + 1, the parent's id, an accepted commit proof and (above height 1) the median vote timestamp, later than the parent's")
	} else {
		sym.Reach("rejected")
		sym.Assert(!want, "a block meeting every link, version, proof and time condition is accepted")
	}
}

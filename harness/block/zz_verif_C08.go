package block

// Harness for property C08 (a decoded block's body matches the hashes in its
// header): the real blockV2Handler.NewBlockDataFromReader - real block codec
// (V2HeaderFormat / V2BodyFormat), real BTP digest and transition-result
// decoding - over a header with arbitrary hash fields and a body with
// arbitrary (short) contents.  Transactions, transaction lists and the vote
// list are harness objects hashed with (uninterpreted, collision-free) SHA3.

import (
	"bytes"

	"github.com/icon-project/goloop/chain/base"
	"github.com/icon-project/goloop/common/codec"
	"github.com/icon-project/goloop/common/crypto"
	"github.com/icon-project/goloop/module"
	"github.com/icon-project/goloop/zzverif/sym"
)

type vhC08Tx struct {
	module.Transaction
	bs []byte
}

func (t *vhC08Tx) Bytes() []byte { return t.bs }

type vhC08TxList struct {
	module.TransactionList
	txs []module.Transaction
}

func (l *vhC08TxList) Hash() []byte {
	if len(l.txs) == 0 {
		return nil
	}
	var all []byte
	for _, t := range l.txs {
		b := t.(*vhC08Tx).bs
		all = append(all, byte(len(b)))
		all = append(all, b...)
	}
	return crypto.SHA3Sum256(all)
}

type vhC08SM struct {
	ServiceManager
}

func (s *vhC08SM) TransactionFromBytes(b []byte, v int) (module.Transaction, error) {
	return &vhC08Tx{bs: b}, nil
}
func (s *vhC08SM) TransactionListFromSlice(txs []module.Transaction, v int) module.TransactionList {
	return &vhC08TxList{txs: txs}
}
func (s *vhC08SM) ValidatorListFromHash(h []byte) module.ValidatorList { return nil }

type vhC08Votes struct {
	module.CommitVoteSet
	bs []byte
}

func (v *vhC08Votes) Hash() []byte { return crypto.SHA3Sum256(v.bs) }

type vhC08Chain struct {
	base.Chain
}

func (c *vhC08Chain) CommitVoteSetDecoder() module.CommitVoteSetDecoder {
	return func(bs []byte) module.CommitVoteSet {
		if len(bs) == 0 {
			return nil
		}
		return &vhC08Votes{bs: bs}
	}
}

type vhC08Result struct {
	A, B, C, D []byte
	Flags      int64
	BTPData    []byte
}

func vhC08BSS(name string) [][]byte {
	n := sym.Len(name+"_count", 1)
	var r [][]byte
	for i := 0; i < n; i++ {
		r = append(r, sym.Bytes(name, 1))
	}
	return r
}

func VH_C08_body_bound_to_header() {
	hf := &V2HeaderFormat{
		Version:                module.BlockVersion2,
		Height:                 3,
		Timestamp:              7,
		Proposer:               nil,
		PrevID:                 []byte{1},
		VotesHash:              sym.Bytes("votesHash", 32),
		PatchTransactionsHash:  nil,
		NormalTransactionsHash: nil,
	}
	if sym.Bool("has_patch_hash") {
		hf.PatchTransactionsHash = sym.Bytes("patchHash", 32)
	}
	if sym.Bool("has_normal_hash") {
		hf.NormalTransactionsHash = sym.Bytes("normalHash", 32)
	}
	var btpInResult []byte
	if sym.Bool("result_has_btp") {
		btpInResult = sym.Bytes("btpHashInResult", 32)
		hf.Result = codec.BC.MustMarshalToBytes(&vhC08Result{Flags: 1, BTPData: btpInResult})
	}
	bf := &V2BodyFormat{
		PatchTransactions:  vhC08BSS("patch"),
		NormalTransactions: vhC08BSS("normal"),
		Votes:              sym.Bytes("votes", 1),
	}
	if sym.Bool("has_btp_digest") {
		// an arbitrary digest body: the empty digest, encoded as the codec does
		bf.BTPDigest = codec.BC.MustMarshalToBytes(&struct{ NTDs []int }{NTDs: []int{}})
		sym.Reach("btp-digest")
	}
	var buf bytes.Buffer
	sym.Assert(v2Codec.Marshal(&buf, hf) == nil, "harness: header encodes")
	sym.Assert(v2Codec.Marshal(&buf, bf) == nil, "harness: body encodes")
	h := &blockV2Handler{chain: &vhC08Chain{}, sm: &vhC08SM{}}
	bd, err := h.NewBlockDataFromReader(bytes.NewReader(buf.Bytes()))
	if err != nil {
		sym.Reach("rejected")
		return
	}
	sym.Reach("accepted")
	if bf.BTPDigest != nil {
		sym.Reach("accepted-with-btp-digest")
	}
	patches := &vhC08TxList{}
	for _, b := range bf.PatchTransactions {
		patches.txs = append(patches.txs, &vhC08Tx{bs: b})
	}
	normals := &vhC08TxList{}
	for _, b := range bf.NormalTransactions {
		normals.txs = append(normals.txs, &vhC08Tx{bs: b})
	}
	sym.Assert(bytes.Equal(patches.Hash(), hf.PatchTransactionsHash), "a decoded block's patch transactions match the hash in its header")
	sym.Assert(bytes.Equal(normals.Hash(), hf.NormalTransactionsHash), "a decoded block's transactions match the hash in its header")
	sym.Assert(bytes.Equal(crypto.SHA3Sum256(bf.Votes), hf.VotesHash), "a decoded block's votes match the hash in its header")
	var digestHash []byte
	if bf.BTPDigest != nil {
		digestHash = crypto.SHA3Sum256(bf.BTPDigest)
	}
	sym.Assert(bytes.Equal(digestHash, btpInResult), "a decoded block's BTP digest matches the hash committed in its header's result")
	// the returned block carries exactly these parts
	b2 := bd.(*blockV2)
	sym.Assert(bytes.Equal(b2.normalTransactions.Hash(), hf.NormalTransactionsHash) && bytes.Equal(b2.patchTransactions.Hash(), hf.PatchTransactionsHash), "the returned block holds the verified transaction lists")
	sym.Assert(bytes.Equal(b2.votes.Hash(), hf.VotesHash), "the returned block holds the verified votes")
	sym.Assert(b2.height == hf.Height && b2.timestamp == hf.Timestamp && bytes.Equal(b2.prevID, hf.PrevID), "the returned block carries the header fields")
}

package block

// Harness for property C08, round trip and robustness: a block serialized by
// the real blockV2.Marshal decodes (real NewBlockDataFromReader) to a block
// with the same id, header fields and body; altered encodings never crash the
// decoder and, when accepted, still satisfy the body-to-header binding.

import (
	"bytes"

	"github.com/icon-project/goloop/btp"
	"github.com/icon-project/goloop/common"
	"github.com/icon-project/goloop/common/atomic"
	"github.com/icon-project/goloop/common/codec"
	"github.com/icon-project/goloop/common/crypto"
	"github.com/icon-project/goloop/module"
	"github.com/icon-project/goloop/service/txresult"
	"github.com/icon-project/goloop/zzverif/sym"
)

type vhC08Iter struct {
	l *vhC08TxList
	i int
}

func (it *vhC08Iter) Has() bool   { return it.i < len(it.l.txs) }
func (it *vhC08Iter) Next() error { it.i++; return nil }
func (it *vhC08Iter) Get() (module.Transaction, int, error) {
	return it.l.txs[it.i], it.i, nil
}

func (l *vhC08TxList) Iterator() module.TransactionIterator { return &vhC08Iter{l: l} }

func (v *vhC08Votes) Bytes() []byte { return v.bs }

func vhC08List(name string) *vhC08TxList {
	l := &vhC08TxList{}
	n := sym.Len(name+"_count", sym.Param("TXS", 1))
	for i := 0; i < n; i++ {
		l.txs = append(l.txs, &vhC08Tx{bs: sym.Bytes(name, 1)})
	}
	return l
}

func vhC08OptBytes(name string, n int) []byte {
	if sym.Bool("has_" + name) {
		return sym.Bytes(name, n)
	}
	return nil
}

// a block as a node holds it, with arbitrary header values and a small body
func vhC08Block(sm *vhC08SM) *blockV2 {
	b := &blockV2{sm: sm}
	b.height = sym.I64("height")
	b.timestamp = sym.I64("timestamp")
	lim := int64(1)<<uint(sym.Param("INTBITS", 16)) - 1
	sym.Assume(sym.And(b.height >= 0, b.timestamp >= 0, b.height <= lim, b.timestamp <= lim))
	if sym.Bool("has_proposer") {
		ab := sym.Bytes("proposer", 21)
		sym.Assume(ab[0] <= 1)
		b.proposer = common.MustNewAddress(ab)
	}
	b.prevID = vhC08OptBytes("prevID", 32)
	b.nextValidatorsHash = vhC08OptBytes("nextValidatorsHash", 32)
	b.logsBloom = txresult.NewLogsBloom(nil)
	b.patchTransactions = vhC08List("patch")
	b.normalTransactions = vhC08List("normal")
	b.votes = &vhC08Votes{bs: sym.Bytes("votes", 1)}
	b.nsFilter = module.BitSetFilterFromBytes(nil, btp.NSFilterCap)
	switch sym.Choose("result", 3) {
	case 0:
		b._btpDigest = atomic.MakeCache[module.BTPDigest](btp.ZeroDigest)
	case 1:
		// a result without BTP data
		b.result = codec.BC.MustMarshalToBytes(&struct{ A, B, C []byte }{A: sym.Bytes("stateHash", 1)})
		b._btpDigest = atomic.MakeCache[module.BTPDigest](btp.ZeroDigest)
	default:
		// an (empty, non-zero) BTP digest committed in the result
		dbs := codec.BC.MustMarshalToBytes(&struct{ NTDs []int }{NTDs: []int{}})
		bd, err := btp.NewDigestFromBytes(dbs)
		sym.Assert(err == nil, "harness: digest")
		b._btpDigest = atomic.MakeCache(bd)
		b.result = codec.BC.MustMarshalToBytes(&vhC08Result{Flags: 1, BTPData: crypto.SHA3Sum256(dbs)})
		sym.Reach("with-btp-digest")
	}
	return b
}

func vhC08Same(b1, b0 *blockV2) {
	sym.Assert(bytes.Equal(b1.ID(), b0.ID()), "a serialized block decodes to a block with the same id")
	sym.Assert(b1.height == b0.height && b1.timestamp == b0.timestamp, "same height and timestamp")
	if b0.proposer == nil {
		sym.Assert(b1.proposer == nil, "no proposer stays no proposer")
	} else {
		sym.Assert(b1.proposer != nil && b1.proposer.Equal(b0.proposer), "same proposer")
	}
	sym.Assert(bytes.Equal(b1.prevID, b0.prevID) && bytes.Equal(b1.nextValidatorsHash, b0.nextValidatorsHash) && bytes.Equal(b1.result, b0.result), "same previous id, next validators hash and result")
	sym.Assert(bytes.Equal(b1.votes.Hash(), b0.votes.Hash()), "same votes")
	for k, pair := range [][2]module.TransactionList{{b1.patchTransactions, b0.patchTransactions}, {b1.normalTransactions, b0.normalTransactions}} {
		l1, l0 := pair[0].(*vhC08TxList), pair[1].(*vhC08TxList)
		sym.Assert(len(l1.txs) == len(l0.txs), "same number of transactions")
		if len(l1.txs) == len(l0.txs) {
			for i := range l1.txs {
				sym.Assert(bytes.Equal(l1.txs[i].Bytes(), l0.txs[i].Bytes()), "same transactions")
			}
		}
		_ = k
	}
	d1, e1 := b1.BTPDigest()
	d0, e0 := b0.BTPDigest()
	sym.Assert(e1 == nil && e0 == nil && bytes.Equal(d1.Bytes(), d0.Bytes()), "same BTP digest")
}

func VH_C08_roundtrip() {
	sm := &vhC08SM{}
	b0 := vhC08Block(sm)
	var buf bytes.Buffer
	sym.Assert(b0.Marshal(&buf) == nil, "a block serializes")
	h := &blockV2Handler{chain: &vhC08Chain{}, sm: sm}
	bd, err := h.NewBlockDataFromReader(bytes.NewReader(buf.Bytes()))
	sym.Assert(err == nil, "a serialized block decodes")
	if err != nil {
		return
	}
	vhC08Same(bd.(*blockV2), b0)
	// and serializes to the same bytes again
	var buf2 bytes.Buffer
	sym.Assert(bd.(*blockV2).Marshal(&buf2) == nil && bytes.Equal(buf2.Bytes(), buf.Bytes()), "the decoded block serializes to the same bytes")
	sym.Reach("roundtrip")
}

// the encoding of a (concrete) block with ALTER consecutive bytes replaced by
// arbitrary values at any position, or cut short at any length: the decoder
// never crashes, and whatever it accepts is bound to its header
func VH_C08_altered_encoding() {
	sm := &vhC08SM{}
	b0 := &blockV2{sm: sm, height: 300, timestamp: 70000}
	b0.proposer = common.MustNewAddressFromString("hx00000000000000000000000000000000000000c8")
	b0.prevID = crypto.SHA3Sum256([]byte("prev"))
	b0.logsBloom = txresult.NewLogsBloom(nil)
	b0.patchTransactions = &vhC08TxList{}
	b0.normalTransactions = &vhC08TxList{txs: []module.Transaction{&vhC08Tx{bs: []byte{0x11, 0x22}}}}
	b0.votes = &vhC08Votes{bs: []byte{0x33}}
	b0.nsFilter = module.BitSetFilterFromBytes(nil, btp.NSFilterCap)
	b0._btpDigest = atomic.MakeCache[module.BTPDigest](btp.ZeroDigest)
	var buf bytes.Buffer
	sym.Assert(b0.Marshal(&buf) == nil, "a block serializes")
	enc := append([]byte(nil), buf.Bytes()...)
	w := sym.Param("ALTER", 1)
	if sym.Bool("cut") {
		n := sym.Range("cut_at", 0, len(enc)-1)
		enc = enc[:n]
		sym.Reach("cut")
	} else {
		pos := sym.Range("pos", 0, len(enc)-w)
		nb := sym.Bytes("altered", w)
		for i := 0; i < w; i++ {
			enc[pos+i] = nb[i]
		}
	}
	h := &blockV2Handler{chain: &vhC08Chain{}, sm: sm}
	bd, err := h.NewBlockDataFromReader(bytes.NewReader(enc)) // a panic here is a violation
	if err != nil {
		sym.Reach("rejected-altered")
		return
	}
	sym.Reach("accepted-altered")
	b1 := bd.(*blockV2)
	// whatever was accepted: the header as sent commits to the body as decoded
	var hf V2HeaderFormat
	sym.Assert(v2Codec.Unmarshal(bytes.NewReader(enc), &hf) == nil, "the header of an accepted encoding decodes")
	sym.Assert(bytes.Equal(hf.NormalTransactionsHash, b1.normalTransactions.Hash()) && bytes.Equal(hf.PatchTransactionsHash, b1.patchTransactions.Hash()) && bytes.Equal(hf.VotesHash, b1.votes.Hash()), "an accepted block's header commits to its body")
	if bytes.Equal(b1.ID(), b0.ID()) {
		// the header is the original one: then the body is the original one, too
		sym.Reach("same-header")
		l1 := b1.normalTransactions.(*vhC08TxList)
		sym.Assert(len(l1.txs) == 1 && bytes.Equal(l1.txs[0].Bytes(), []byte{0x11, 0x22}) && len(b1.patchTransactions.(*vhC08TxList).txs) == 0, "under an unchanged header only the original transactions are accepted")
		sym.Assert(bytes.Equal(b1.votes.(*vhC08Votes).bs, []byte{0x33}), "under an unchanged header only the original votes are accepted")
	}
}

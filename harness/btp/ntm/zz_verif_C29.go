package ntm

// Harness for property C29 (BTP proofs require more than two thirds of
// distinct validator signatures).  The real secp256k1ProofContext.Verify /
// VerifyPart run over a proof whose every slot is empty or holds a signature
// made by an arbitrary key (a validator at its own index, a validator at
// another index, a foreign key) over the decision hash or over another hash.
// Keys and signatures come from the key model under gosym (see DESIGN.md) and
// are real secp256k1 keys natively.

import (
	"github.com/icon-project/goloop/common/crypto"
	"github.com/icon-project/goloop/zzverif/sym"
)

func VH_C29_verify() {
	n := sym.Range("validators", 1, sym.Param("N", 4))
	mod := &networkTypeModule{core: &iconModuleCore{}}
	privs := make([]*crypto.PrivateKey, n+1) // the last one is not a validator
	keys := make([][]byte, n)
	for i := range privs {
		priv, pub := crypto.GenerateKeyPair()
		privs[i] = priv
		if i < n {
			keys[i] = pub.SerializeCompressed()
		}
	}
	pc, err := newSecp256k1ProofContext(mod, keys)
	sym.Assert(err == nil, "proof context is built")
	if sym.Bool("context_from_bytes") {
		// the verifying node usually holds a context restored from its serialised form
		sym.Reach("deserialised-context")
		pc, err = newSecp256k1ProofContextFromBytes(mod, pc.Bytes())
		sym.Assert(err == nil, "proof context is restored from bytes")
	}
	dHash := sym.Bytes("decision", 32)
	other := sym.Bytes("other", 32)
	proof := pc.NewProof().(*secp256k1Proof)
	good := 0
	bad := false
	for i := 0; i < n; i++ {
		if sym.Bool("empty") {
			continue
		}
		signer := sym.Choose("signer", n+1)
		h := dHash
		wrongHash := sym.Bool("wrong_hash")
		if wrongHash {
			h = other
		}
		sig, err := crypto.NewSignature(h, privs[signer])
		sym.Assert(err == nil, "harness: signing succeeds")
		proof.Signatures[i] = sig
		if signer == i && !wrongHash {
			good++
		} else {
			bad = true
		}
	}
	sym.Assume(!bytesEq32(dHash, other))
	err = pc.Verify(dHash, proof)
	if err == nil {
		sym.Reach("accepted")
		sym.Assert(!bad, "an accepted proof holds no wrong-index, foreign or wrong-decision signature")
		sym.Assert(3*good > 2*n, "an accepted proof holds signatures of more than two thirds of the validators, each at its own index")
	} else {
		sym.Reach("rejected")
		sym.Assert(bad || 3*good <= 2*n, "a proof with enough own-index signatures over the decision and nothing else is accepted")
	}
}

func bytesEq32(a, b []byte) bool {
	var cs []bool
	for i := range a {
		cs = append(cs, a[i] == b[i])
	}
	return sym.And(cs...)
}

// a single proof part: accepted exactly at the signer's own index
func VH_C29_verify_part() {
	n := sym.Param("N", 4)
	mod := &networkTypeModule{core: &iconModuleCore{}}
	privs := make([]*crypto.PrivateKey, n+1)
	keys := make([][]byte, n)
	for i := range privs {
		priv, pub := crypto.GenerateKeyPair()
		privs[i] = priv
		if i < n {
			keys[i] = pub.SerializeCompressed()
		}
	}
	pc, err := newSecp256k1ProofContext(mod, keys)
	sym.Assert(err == nil, "proof context is built")
	dHash := sym.Bytes("decision", 32)
	signer := sym.Choose("signer", n+1)
	sig, err := crypto.NewSignature(dHash, privs[signer])
	sym.Assert(err == nil, "harness: signing succeeds")
	index := int(sym.I32("index"))
	idx, err := pc.VerifyPart(dHash, &secp256k1ProofPart{Index: index, Signature: sig})
	if err == nil {
		sym.Reach("accepted")
		sym.Assert(index == signer && signer < n && idx == index, "a proof part is accepted only at the index of the validator that signed it")
	} else {
		sym.Reach("rejected")
		sym.Assert(index != signer || signer == n, "a validator's own proof part is accepted")
	}
}

package ntm

// C29, continued: validators without a key (a nil entry of the proof
// context) never contribute to a proof - whatever sits in their slot
// (nothing, a signature of some key, or a signature that cannot be recovered
// at all) the proof is accepted only with more than two thirds of the
// validators signing at their own index.

import (
	"github.com/icon-project/goloop/common/crypto"
	"github.com/icon-project/goloop/zzverif/sym"
)

func VH_C29_keyless_validators() {
	n := sym.Range("validators", 1, sym.Param("N", 4))
	mod := &networkTypeModule{core: &iconModuleCore{}}
	privs := make([]*crypto.PrivateKey, n+1) // the last one is not a validator
	keys := make([][]byte, n)
	keyless := make([]bool, n)
	for i := range privs {
		priv, pub := crypto.GenerateKeyPair()
		privs[i] = priv
		if i < n {
			if sym.Bool("keyless") {
				keyless[i] = true
				sym.Reach("keyless")
			} else {
				keys[i] = pub.SerializeCompressed()
			}
		}
	}
	pc, err := newSecp256k1ProofContext(mod, keys)
	sym.Assert(err == nil, "proof context is built")
	if sym.Bool("context_from_bytes") {
		pc, err = newSecp256k1ProofContextFromBytes(mod, pc.Bytes())
		sym.Assert(err == nil, "proof context is restored from bytes")
	}
	dHash := sym.Bytes("decision", 32)
	proof := pc.NewProof().(*secp256k1Proof)
	good := 0
	for i := 0; i < n; i++ {
		switch sym.Choose("slot", 4) {
		case 0: // empty
		case 1: // the validator's own key (for a key-less validator: a key it never registered)
			sig, err := crypto.NewSignature(dHash, privs[i])
			sym.Assert(err == nil, "harness: signing succeeds")
			proof.Signatures[i] = sig
			if !keyless[i] {
				good++
			}
		case 2: // a foreign key
			sig, err := crypto.NewSignature(dHash, privs[n])
			sym.Assert(err == nil, "harness: signing succeeds")
			proof.Signatures[i] = sig
		default: // 64 arbitrary bytes: no recovery id, the signer cannot be recovered
			sig, err := crypto.ParseSignature(sym.Bytes("rs", 64))
			sym.Assert(err == nil, "a 64-byte signature parses")
			proof.Signatures[i] = sig
			sym.Reach("unrecoverable")
		}
	}
	if pc.Verify(dHash, proof) == nil {
		sym.Reach("accepted-keyless")
		sym.Assert(3*good > 2*n, "an accepted proof holds signatures of more than two thirds of the validators, each at its own index; key-less validators never count")
	}
	// a single part in a key-less slot is never accepted
	i := sym.Choose("part_index", n)
	if keyless[i] && proof.Signatures[i] != nil {
		_, err := pc.VerifyPart(dHash, &secp256k1ProofPart{Index: i, Signature: proof.Signatures[i]})
		sym.Assert(err != nil, "a proof part in the slot of a key-less validator is rejected")
	}
}

package codec

// Harness for property C23 (the RLP codec round-trips every supported value
// and rejects malformed input).  Everything below goes through the public
// entry points BC.MarshalToBytes / BC.UnmarshalFromBytes, i.e. through the
// reflective encoder/decoder and the rlpWriter/rlpReader.

import (
	"bytes"
	"math/big"

	"github.com/icon-project/goloop/zzverif/sym"
)

func VH_C23_int64() {
	v := sym.I64("v")
	bs, err := BC.MarshalToBytes(v)
	sym.Assert(err == nil, "int64 encodes")
	sym.Observe("bs", bs)
	var r int64
	rest, err := BC.UnmarshalFromBytes(bs, &r)
	sym.Assert(err == nil, "int64 decodes")
	sym.Assert(r == v, "int64 round trip")
	sym.Assert(len(rest) == 0, "int64 decoding consumes the whole encoding")
}

func VH_C23_uint64() {
	v := sym.U64("v")
	bs, err := BC.MarshalToBytes(v)
	sym.Assert(err == nil, "uint64 encodes")
	sym.Observe("bs", bs)
	var r uint64
	rest, err := BC.UnmarshalFromBytes(bs, &r)
	sym.Assert(err == nil, "uint64 decodes")
	sym.Assert(r == v, "uint64 round trip")
	sym.Assert(len(rest) == 0, "uint64 decoding consumes the whole encoding")
}

// the narrower integer kinds, bool
func VH_C23_small_scalars() {
	{
		v := sym.I8("i8")
		bs, err := BC.MarshalToBytes(v)
		var r int8
		rest, err2 := BC.UnmarshalFromBytes(bs, &r)
		sym.Assert(sym.And(err == nil, err2 == nil, r == v, len(rest) == 0), "int8 round trip")
	}
	{
		v := sym.I16("i16")
		bs, err := BC.MarshalToBytes(v)
		var r int16
		rest, err2 := BC.UnmarshalFromBytes(bs, &r)
		sym.Assert(sym.And(err == nil, err2 == nil, r == v, len(rest) == 0), "int16 round trip")
	}
	{
		v := sym.U8("u8")
		bs, err := BC.MarshalToBytes(v)
		var r uint8
		rest, err2 := BC.UnmarshalFromBytes(bs, &r)
		sym.Assert(sym.And(err == nil, err2 == nil, r == v, len(rest) == 0), "uint8 round trip")
	}
	{
		v := sym.U16("u16")
		bs, err := BC.MarshalToBytes(v)
		var r uint16
		rest, err2 := BC.UnmarshalFromBytes(bs, &r)
		sym.Assert(sym.And(err == nil, err2 == nil, r == v, len(rest) == 0), "uint16 round trip")
	}
	{
		v := sym.Bool("b")
		bs, err := BC.MarshalToBytes(v)
		var r bool
		rest, err2 := BC.UnmarshalFromBytes(bs, &r)
		sym.Assert(sym.And(err == nil, err2 == nil, r == v, len(rest) == 0), "bool round trip")
	}
}

func VH_C23_int32s() {
	{
		v := sym.I32("i32")
		bs, err := BC.MarshalToBytes(v)
		var r int32
		rest, err2 := BC.UnmarshalFromBytes(bs, &r)
		sym.Assert(sym.And(err == nil, err2 == nil, r == v, len(rest) == 0), "int32 round trip")
	}
	{
		v := sym.U32("u32")
		bs, err := BC.MarshalToBytes(v)
		var r uint32
		rest, err2 := BC.UnmarshalFromBytes(bs, &r)
		sym.Assert(sym.And(err == nil, err2 == nil, r == v, len(rest) == 0), "uint32 round trip")
	}
}

// byte strings and strings, including the 55/56 boundary of the length header;
// nil and empty byte slices stay distinct
func vhC23Len(name string) int {
	lens := []int{0, 1, 2, 55, 56}
	return lens[sym.Choose(name, sym.Param("NLENS", 5))]
}

func VH_C23_bytes() {
	var b []byte
	if !sym.Bool("nil") {
		b = sym.Bytes("b", vhC23Len("len"))
	} else {
		sym.Reach("nil")
	}
	bs, err := BC.MarshalToBytes(b)
	sym.Assert(err == nil, "[]byte encodes")
	r := []byte{9}
	rest, err := BC.UnmarshalFromBytes(bs, &r)
	sym.Assert(err == nil, "[]byte decodes")
	sym.Assert(len(rest) == 0, "[]byte decoding consumes the whole encoding")
	sym.Assert((r == nil) == (b == nil), "nil and empty byte slices stay distinct")
	sym.Assert(bytes.Equal(r, b), "[]byte round trip")
	s := sym.String("s", vhC23Len("slen"))
	bs, err = BC.MarshalToBytes(s)
	sym.Assert(err == nil, "string encodes")
	var rs string
	rest, err = BC.UnmarshalFromBytes(bs, &rs)
	sym.Assert(sym.And(err == nil, len(rest) == 0), "string decodes")
	sym.Assert(rs == s, "string round trip")
}

type vhC23Struct struct {
	A int16
	B []byte
	C *uint8
	D string
	E bool
}

func VH_C23_struct() {
	var s vhC23Struct
	s.A = sym.I16("a")
	if sym.Bool("bnil") {
		s.B = nil
	} else {
		s.B = sym.Bytes("b", sym.Len("bl", 2))
	}
	if !sym.Bool("cnil") {
		c := sym.U8("c")
		s.C = &c
	}
	s.D = sym.String("d", sym.Len("dl", 2))
	s.E = sym.Bool("e")
	bs, err := BC.MarshalToBytes(&s)
	sym.Assert(err == nil, "struct encodes")
	sym.Observe("bs", bs)
	var r vhC23Struct
	rest, err := BC.UnmarshalFromBytes(bs, &r)
	sym.Assert(err == nil, "struct decodes")
	sym.Assert(len(rest) == 0, "struct decoding consumes the whole encoding")
	sym.Assert(r.A == s.A && r.D == s.D && r.E == s.E, "struct scalar fields round trip")
	sym.Assert((r.B == nil) == (s.B == nil) && bytes.Equal(r.B, s.B), "struct byte slice round trips, nil and empty distinct")
	sym.Assert((r.C == nil) == (s.C == nil), "struct pointer nil-ness round trips")
	if s.C != nil {
		sym.Assert(*r.C == *s.C, "struct pointer target round trips")
	}
}

type vhC23Inner struct {
	X uint8
	Y []int16
}

type vhC23Outer struct {
	P *vhC23Inner
	L []vhC23Inner
	N int8
}

// lists, nested structs, pointers to structs, nil pointers
func VH_C23_nested() {
	var o vhC23Outer
	if !sym.Bool("pnil") {
		o.P = &vhC23Inner{X: sym.U8("px")}
		n := sym.Len("pyl", 2)
		if n > 0 || sym.Bool("pyempty") {
			o.P.Y = make([]int16, n)
			for i := range o.P.Y {
				o.P.Y[i] = sym.I16("py")
			}
		}
	}
	nl := sym.Len("ll", 2)
	if nl > 0 {
		o.L = make([]vhC23Inner, nl)
		for i := range o.L {
			o.L[i].X = sym.U8("lx")
		}
	}
	o.N = sym.I8("n")
	bs, err := BC.MarshalToBytes(&o)
	sym.Assert(err == nil, "nested value encodes")
	bs2, err := BC.MarshalToBytes(&o)
	sym.Assert(err == nil && bytes.Equal(bs, bs2), "encoding is deterministic")
	var r vhC23Outer
	rest, err := BC.UnmarshalFromBytes(bs, &r)
	sym.Assert(err == nil, "nested value decodes")
	sym.Assert(len(rest) == 0, "nested decoding consumes the whole encoding")
	sym.Assert(r.N == o.N, "scalar after nested parts round trips")
	sym.Assert((r.P == nil) == (o.P == nil), "pointer to struct: nil-ness round trips")
	if o.P != nil && r.P != nil {
		sym.Assert(r.P.X == o.P.X, "pointer to struct: field round trips")
		sym.Assert(len(r.P.Y) == len(o.P.Y), "slice of integers: length round trips")
		sym.Assert((r.P.Y == nil) == (o.P.Y == nil), "slice of integers: nil and empty stay distinct")
		for i := range o.P.Y {
			if i < len(r.P.Y) {
				sym.Assert(r.P.Y[i] == o.P.Y[i], "slice of integers: elements round trip")
			}
		}
	}
	sym.Assert(len(r.L) == len(o.L), "slice of structs: length round trips")
	for i := range o.L {
		if i < len(r.L) {
			sym.Assert(r.L[i].X == o.L[i].X, "slice of structs: elements round trip")
		}
	}
}

// maps: round trip and an encoding that does not depend on insertion order
func VH_C23_map() {
	k1, k2 := sym.String("k1", 1), sym.String("k2", 1)
	v1, v2 := sym.U8("v1"), sym.U8("v2")
	sym.Assume(k1 != k2)
	m1 := map[string]uint8{}
	m1[k1] = v1
	m1[k2] = v2
	m2 := map[string]uint8{}
	m2[k2] = v2
	m2[k1] = v1
	b1, err1 := BC.MarshalToBytes(m1)
	b2, err2 := BC.MarshalToBytes(m2)
	sym.Assert(err1 == nil && err2 == nil, "maps encode")
	sym.Assert(bytes.Equal(b1, b2), "map encoding does not depend on insertion order")
	var r map[string]uint8
	rest, err := BC.UnmarshalFromBytes(b1, &r)
	sym.Assert(err == nil && len(rest) == 0, "map decodes")
	sym.Assert(len(r) == 2, "map round trip: size")
	g1, ok1 := r[k1]
	g2, ok2 := r[k2]
	sym.Assert(ok1 && ok2 && g1 == v1 && g2 == v2, "map round trip: entries")
	// keys are written in ascending order
	lo := k1
	if k2 < k1 {
		lo = k2
	}
	var first string
	_, err = BC.UnmarshalFromBytes(b1[1:], &first)
	sym.Assert(err == nil && first == lo, "map entries are encoded in ascending key order")
}

// big integers (custom codec path): round trip for every value of up to BIGN bytes
func VH_C23_bigint() {
	n := sym.Range("n", 1, sym.Param("BIGN", 3))
	mag := sym.Bytes("mag", n)
	v := new(big.Int).SetBytes(mag)
	if sym.Bool("neg") {
		v.Neg(v)
	}
	bs, err := BC.MarshalToBytes(v)
	sym.Assert(err == nil, "big integer encodes")
	var r big.Int
	rest, err := BC.UnmarshalFromBytes(bs, &r)
	sym.Assert(err == nil && len(rest) == 0, "big integer decodes")
	sym.Assert(r.Cmp(v) == 0, "big integer round trip")
}

// ---- decoding arbitrary input ----

// any input: no crash; an accepted narrow integer fits its kind and agrees
// with the int64 decoding (overflow is rejected, never wrapped)
func VH_C23_decode_ints() {
	in := sym.Bytes("in", sym.Len("n", sym.Param("NIN", 4)))
	var w int64
	rest64, err64 := BC.UnmarshalFromBytes(in, &w)
	if err64 == nil {
		sym.Assert(len(rest64) <= len(in), "the remainder is part of the input")
	}
	var a int8
	_, err := BC.UnmarshalFromBytes(in, &a)
	if err == nil {
		sym.Reach("int8-accepted")
		sym.Assert(err64 == nil, "what decodes as int8 decodes as int64")
		sym.Assert(int64(a) == w, "int8 decoding never wraps")
	} else if err64 == nil {
		sym.Reach("int8-rejected")
		sym.Assert(sym.Or(w < -128, w > 127), "int8 decoding rejects only values out of range")
	}
	var b int16
	_, err = BC.UnmarshalFromBytes(in, &b)
	if err == nil {
		sym.Assert(err64 == nil && int64(b) == w, "int16 decoding never wraps")
	} else if err64 == nil {
		sym.Assert(sym.Or(w < -32768, w > 32767), "int16 decoding rejects only values out of range")
	}
}

func VH_C23_decode_uints() {
	in := sym.Bytes("in", sym.Len("n", sym.Param("NIN", 4)))
	var w uint64
	_, err64 := BC.UnmarshalFromBytes(in, &w)
	var a uint8
	_, err := BC.UnmarshalFromBytes(in, &a)
	if err == nil {
		sym.Reach("uint8-accepted")
		sym.Assert(err64 == nil && uint64(a) == w, "uint8 decoding never wraps")
	} else if err64 == nil {
		sym.Reach("uint8-rejected")
		sym.Assert(w > 255, "uint8 decoding rejects only values out of range")
	}
	var b uint16
	_, err = BC.UnmarshalFromBytes(in, &b)
	if err == nil {
		sym.Assert(err64 == nil && uint64(b) == w, "uint16 decoding never wraps")
	} else if err64 == nil {
		sym.Assert(w > 65535, "uint16 decoding rejects only values out of range")
	}
}

// any input into byte strings, strings, lists and structs: no crash, nothing
// longer than the input comes out
func VH_C23_decode_any() {
	in := sym.Bytes("in", sym.Len("n", sym.Param("NIN2", 3)))
	var bs []byte
	rest, err := BC.UnmarshalFromBytes(in, &bs)
	if err == nil {
		sym.Reach("bytes-accepted")
		sym.Assert(len(bs)+len(rest) <= len(in), "decoded bytes plus remainder fit in the input")
	} else {
		sym.Reach("bytes-rejected")
	}
	var s string
	if _, err := BC.UnmarshalFromBytes(in, &s); err == nil {
		sym.Assert(len(s) <= len(in), "a decoded string is no longer than the input")
	}
}

func VH_C23_decode_any_list() {
	in := sym.Bytes("in", sym.Len("n", sym.Param("NIN3", 2)))
	var l []int16
	if _, err := BC.UnmarshalFromBytes(in, &l); err == nil {
		sym.Reach("list-accepted")
		sym.Assert(len(l) <= len(in), "a decoded list has no more elements than input bytes")
	}
}

func VH_C23_decode_any_struct() {
	in := sym.Bytes("in", sym.Len("n", sym.Param("NIN3", 2)))
	var st vhC23Struct
	_, _ = BC.UnmarshalFromBytes(in, &st)
}

func VH_C23_decode_any_map() {
	in := sym.Bytes("in", sym.Len("n", sym.Param("NIN3", 2)))
	var m map[string]uint8
	if _, err := BC.UnmarshalFromBytes(in, &m); err == nil {
		sym.Assert(len(m) <= len(in), "a decoded map has no more entries than input bytes")
	}
	var bi big.Int
	_, _ = BC.UnmarshalFromBytes(in, &bi)
}

// a length header that promises more than the input holds is rejected
// (sizes beyond the input), for the short and the long header forms
func vhC23ShortInput() []byte {
	// header forms: short string / long string with a 1, 2 or 3 byte size
	// field / short list / long list with a 1 or 2 byte size field; the
	// short forms claim 1..3 or the maximal 55 bytes
	var hdr uint8
	switch sym.Choose("form", 8) {
	case 0:
		hdr = 0x81 + uint8(sym.Choose("claim", 3))
	case 1:
		hdr = 0xb7
	case 2:
		hdr = 0xb8
	case 3:
		hdr = 0xb9
	case 4:
		hdr = 0xba
	case 5:
		hdr = 0xc1 + uint8(sym.Choose("claim", 3))
	case 6:
		hdr = 0xf7
	default:
		hdr = 0xf8
	}
	lenlen := 0
	var claimed uint64
	var in []byte
	switch {
	case hdr <= 0xb7:
		claimed = uint64(hdr - 0x80)
	case hdr <= 0xbf:
		lenlen = int(hdr - 0xb7)
	case hdr <= 0xf7:
		claimed = uint64(hdr - 0xc0)
	default:
		lenlen = int(hdr - 0xf7)
	}
	in = append(in, hdr)
	if lenlen > 0 {
		lb := sym.Bytes("lb", lenlen)
		in = append(in, lb...)
		for _, x := range lb {
			claimed = claimed<<8 | uint64(x)
		}
	}
	have := sym.Len("have", sym.Param("HAVE", 1))
	in = append(in, sym.Bytes("data", have)...)
	sym.Assume(claimed > uint64(have))
	sym.Reach("short")
	return in
}

func VH_C23_size_beyond_input() {
	in := vhC23ShortInput()
	var bs []byte
	_, err := BC.UnmarshalFromBytes(in, &bs)
	sym.Assert(err != nil, "a byte string whose declared size exceeds the input is rejected")
}

func VH_C23_size_beyond_input_list() {
	in := vhC23ShortInput()
	var l []uint16
	_, err := BC.UnmarshalFromBytes(in, &l)
	sym.Assert(err != nil, "a list whose declared size exceeds the input is rejected")
}

func VH_C23_size_beyond_input_struct() {
	in := vhC23ShortInput()
	var st vhC23Struct
	_, err := BC.UnmarshalFromBytes(in, &st)
	sym.Assert(err != nil, "a struct whose declared size exceeds the input is rejected")
}

// narrowing: a value written as a 64-bit integer is accepted by a narrower
// integer kind exactly when it is in that kind's range, and then unchanged
func VH_C23_narrowing_signed() {
	v := sym.I64("v")
	bs, err := BC.MarshalToBytes(v)
	sym.Assert(err == nil, "int64 encodes")
	var a int8
	_, err = BC.UnmarshalFromBytes(bs, &a)
	sym.Assert((err == nil) == sym.And(v >= -128, v <= 127), "int8 accepts exactly its range")
	sym.Assert(err != nil || int64(a) == v, "int8 decoding never wraps")
	var b int16
	_, err = BC.UnmarshalFromBytes(bs, &b)
	sym.Assert((err == nil) == sym.And(v >= -32768, v <= 32767), "int16 accepts exactly its range")
	sym.Assert(err != nil || int64(b) == v, "int16 decoding never wraps")
	var c int32
	_, err = BC.UnmarshalFromBytes(bs, &c)
	sym.Assert((err == nil) == sym.And(v >= -2147483648, v <= 2147483647), "int32 accepts exactly its range")
	sym.Assert(err != nil || int64(c) == v, "int32 decoding never wraps")
	var d int
	_, err = BC.UnmarshalFromBytes(bs, &d)
	sym.Assert(err == nil && int64(d) == v, "int accepts every int64")
}

func VH_C23_narrowing_unsigned() {
	v := sym.U64("v")
	bs, err := BC.MarshalToBytes(v)
	sym.Assert(err == nil, "uint64 encodes")
	var a uint8
	_, err = BC.UnmarshalFromBytes(bs, &a)
	sym.Assert((err == nil) == (v <= 255), "uint8 accepts exactly its range")
	sym.Assert(err != nil || uint64(a) == v, "uint8 decoding never wraps")
	var b uint16
	_, err = BC.UnmarshalFromBytes(bs, &b)
	sym.Assert((err == nil) == (v <= 65535), "uint16 accepts exactly its range")
	sym.Assert(err != nil || uint64(b) == v, "uint16 decoding never wraps")
	var c uint32
	_, err = BC.UnmarshalFromBytes(bs, &c)
	sym.Assert((err == nil) == (v <= 4294967295), "uint32 accepts exactly its range")
	sym.Assert(err != nil || uint64(c) == v, "uint32 decoding never wraps")
	var d uint
	_, err = BC.UnmarshalFromBytes(bs, &d)
	sym.Assert(err == nil && uint64(d) == v, "uint accepts every uint64")
	// a signed kind never accepts an unsigned value above its maximum
	var e int64
	_, err = BC.UnmarshalFromBytes(bs, &e)
	sym.Assert(err != nil || (e >= 0 && uint64(e) == v), "int64 decoding of an unsigned encoding never wraps")
}

package codec

// Harness for property C23 (the RLP codec round-trips every supported value
// and rejects malformed input).

import (
	"bytes"

	"github.com/icon-project/goloop/zzverif/sym"
)

func VH_C23_int64() {
	v := sym.I64("v")
	bs, err := BC.MarshalToBytes(v)
	sym.Assert(err == nil, "int64 encodes")
	sym.Observe("bs", bs)
	var r int64
	rest, err := BC.UnmarshalFromBytes(bs, &r)
	sym.Assert(err == nil, "int64 decodes")
	sym.Assert(r == v, "int64 round trip")
	sym.Assert(len(rest) == 0, "int64 decoding consumes the whole encoding")
}

func VH_C23_uint64() {
	v := sym.U64("v")
	bs, err := BC.MarshalToBytes(v)
	sym.Assert(err == nil, "uint64 encodes")
	sym.Observe("bs", bs)
	var r uint64
	rest, err := BC.UnmarshalFromBytes(bs, &r)
	sym.Assert(err == nil, "uint64 decodes")
	sym.Assert(r == v, "uint64 round trip")
	sym.Assert(len(rest) == 0, "uint64 decoding consumes the whole encoding")
}

type vhC23Struct struct {
	A int16
	B []byte
	C *uint8
	D string
	E bool
}

func VH_C23_struct() {
	var s vhC23Struct
	s.A = sym.I16("a")
	if sym.Bool("bnil") {
		s.B = nil
	} else {
		s.B = sym.Bytes("b", sym.Len("bl", 2))
	}
	if !sym.Bool("cnil") {
		c := sym.U8("c")
		s.C = &c
	}
	s.D = sym.String("d", sym.Len("dl", 2))
	s.E = sym.Bool("e")
	bs, err := BC.MarshalToBytes(&s)
	sym.Assert(err == nil, "struct encodes")
	sym.Observe("bs", bs)
	var r vhC23Struct
	rest, err := BC.UnmarshalFromBytes(bs, &r)
	sym.Assert(err == nil, "struct decodes")
	sym.Assert(len(rest) == 0, "struct decoding consumes the whole encoding")
	sym.Assert(r.A == s.A && r.D == s.D && r.E == s.E, "struct scalar fields round trip")
	sym.Assert((r.B == nil) == (s.B == nil) && bytes.Equal(r.B, s.B), "struct byte slice round trips, nil and empty distinct")
	sym.Assert((r.C == nil) == (s.C == nil), "struct pointer nil-ness round trips")
	if s.C != nil {
		sym.Assert(*r.C == *s.C, "struct pointer target round trips")
	}
}

func VH_C23_probe_decode_int32() {
	b := sym.Bytes("b", sym.Len("n", 2))
	var x int32
	_, err := BC.UnmarshalFromBytes(b, &x)
	if err == nil {
		sym.Reach("ok")
	} else {
		sym.Reach("err")
	}
}

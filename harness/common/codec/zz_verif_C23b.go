package codec

// C23, continued: size-form boundaries.  Byte strings and lists whose payload
// is just below, at and above the short/long header boundary (55/56 bytes)
// and the one-/two-byte length boundary (255/256 bytes) round-trip, in RLP
// and in the MsgPack codec, alone and nested.

import (
	"bytes"

	"github.com/icon-project/goloop/zzverif/sym"
)

type vhC23BSized struct {
	A []byte
	N int64
}

type vhC23BOuter struct {
	L [][]byte
	S vhC23BSized
}

var vhC23Sizes = []int{0, 1, 52, 53, 54, 55, 56, 57, 58, 253, 254, 255, 256, 257}

func vhC23Boundary(c Codec, what string) {
	n := vhC23Sizes[sym.Choose("size", len(vhC23Sizes))]
	a := sym.Bytes("payload", n)
	// a byte string
	bs, err := c.MarshalToBytes(a)
	sym.Assert(err == nil, what+": bytes encode")
	var a2 []byte
	_, err = c.UnmarshalFromBytes(bs, &a2)
	sym.Assert(err == nil && bytes.Equal(a2, a), what+": a byte string of any boundary length round-trips")
	// a struct holding it (list payload = encoding of the string + one byte)
	in := vhC23BSized{A: a, N: int64(sym.U8("n") & 0x7f)}
	bs, err = c.MarshalToBytes(&in)
	sym.Assert(err == nil, what+": struct encodes")
	var out vhC23BSized
	_, err = c.UnmarshalFromBytes(bs, &out)
	sym.Assert(err == nil && bytes.Equal(out.A, in.A) && out.N == in.N, what+": a struct of any boundary size round-trips")
	// a list of byte strings and a nested struct
	in2 := vhC23BOuter{L: [][]byte{a, {0x01}}, S: in}
	bs, err = c.MarshalToBytes(&in2)
	sym.Assert(err == nil, what+": nested value encodes")
	var out2 vhC23BOuter
	_, err = c.UnmarshalFromBytes(bs, &out2)
	sym.Assert(err == nil && len(out2.L) == 2 && bytes.Equal(out2.L[0], a) && bytes.Equal(out2.L[1], []byte{0x01}) && bytes.Equal(out2.S.A, a) && out2.S.N == in.N, what+": nested lists of any boundary size round-trip")
	// a plain list whose payload is exactly n bytes: n one-byte items below 0x80
	if n <= 58 {
		items := make([]byte, n)
		for i := range items {
			items[i] = byte(i & 0x7f)
		}
		var l []int64
		for _, x := range items {
			l = append(l, int64(x))
		}
		bs, err = c.MarshalToBytes(l)
		sym.Assert(err == nil, what+": list encodes")
		var l2 []int64
		_, err = c.UnmarshalFromBytes(bs, &l2)
		ok := err == nil && len(l2) == len(l)
		if ok {
			for i := range l {
				ok = ok && l[i] == l2[i]
			}
		}
		sym.Assert(ok, what+": a list whose payload has any boundary size round-trips")
	}
	sym.Reach(what + "-boundary")
}

func VH_C23_boundary_rlp()     { vhC23Boundary(RLP, "rlp") }
func VH_C23_boundary_msgpack() { vhC23Boundary(MP, "msgpack") }

package containerdb

// Harness for property C21 (contract storage containers do not collide):
// the composite-key encoding (AppendKeys / rlpEncodeBytes / ToBytes) and its
// inverse (SplitKeys / rlpParseBytes / rlpReadSize).

import (
	"bytes"

	"github.com/icon-project/goloop/common"
	"github.com/icon-project/goloop/zzverif/sym"
)

// part lengths explored: tiny ones and the two sides of the 55/56 boundary
// of the length encoding
func vhC21Len(name string) int {
	lens := []int{0, 1, 2, 55, 56}
	return lens[sym.Choose(name, sym.Param("NLENS", 3))]
}

func vhC21Tuple(name string, maxArity int) []interface{} {
	n := sym.Range(name+"_arity", 0, maxArity)
	t := make([]interface{}, n)
	for i := range t {
		t[i] = sym.Bytes(name, vhC21Len(name+"_len"))
	}
	return t
}

// SplitKeys inverts AppendKeys: composite keys decode back to their parts
func VH_C21_split_inverse() {
	a := vhC21Tuple("a", sym.Param("ARITY", 3))
	key := AppendKeys(nil, a...)
	parts, err := SplitKeys(key)
	sym.Assert(err == nil, "a composite key splits without error")
	sym.Assert(len(parts) == len(a), "a composite key splits into as many parts as were appended")
	if len(parts) == len(a) {
		for i := range a {
			sym.Assert(bytes.Equal(parts[i], a[i].([]byte)), "part i decodes to the bytes that were appended")
		}
	}
	// the prefix is carried verbatim
	p := sym.Bytes("prefix", sym.Len("plen", 2))
	kp := AppendKeys(p, a...)
	sym.Assert(bytes.Equal(kp, append(append([]byte{}, p...), key...)), "AppendKeys(p, a) = p ++ AppendKeys(nil, a)")
}

// one part followed by arbitrary bytes parses back to the part and the rest
// (prefix-freeness of the part encoding: the inductive step of injectivity
// for any arity)
func VH_C21_part_prefix_free() {
	b := sym.Bytes("b", vhC21Len("len"))
	rest := sym.Bytes("rest", sym.Len("rlen", 2))
	enc := rlpEncodeBytes(b)
	part, remain, err := rlpParseBytes(append(append([]byte{}, enc...), rest...))
	sym.Assert(err == nil, "an encoded part followed by anything parses")
	sym.Assert(bytes.Equal(part, b), "the parsed part is the encoded one")
	sym.Assert(bytes.Equal(remain, rest), "the remainder is exactly what followed")
}

// distinct paths give distinct keys (same or different arity), under a common prefix
func VH_C21_injective() {
	ar := sym.Param("ARITY2", 2)
	a := vhC21Tuple("a", ar)
	b := vhC21Tuple("b", ar)
	p := sym.Bytes("prefix", sym.Len("plen", 1))
	ka := AppendKeys(p, a...)
	kb := AppendKeys(p, b...)
	same := len(a) == len(b)
	if same {
		for i := range a {
			if len(a[i].([]byte)) != len(b[i].([]byte)) {
				same = false
			}
		}
	}
	if !same {
		sym.Reach("different-shape")
		sym.Assert(!bytes.Equal(ka, kb), "paths of different shape never share a key")
		return
	}
	var conds []bool
	for i := range a {
		conds = append(conds, bytes.Equal(a[i].([]byte), b[i].([]byte)))
	}
	sym.Reach("same-shape")
	sym.Assert(sym.Iff(bytes.Equal(ka, kb), sym.And(conds...)), "keys are equal exactly when every part is equal")
}

// every key kind maps to bytes injectively within its kind (one harness per
// kind: the length of an integer encoding forks the path)
func VH_C21_kind_int64() {
	x, y := sym.I64("x"), sym.I64("y")
	sym.Assume(x != y)
	sym.Reach("ints")
	sym.Assert(!bytes.Equal(AppendKeys(nil, x), AppendKeys(nil, y)), "different int64 keys give different storage keys")
}

func VH_C21_kind_int() {
	x := sym.I64("x")
	sym.Assert(bytes.Equal(ToBytes(int(x)), ToBytes(x)), "int and int64 keys of the same value agree")
	x32 := sym.I32("x32")
	sym.Assert(bytes.Equal(ToBytes(x32), ToBytes(int64(x32))), "int32 and int64 keys of the same value agree")
	x16 := sym.I16("x16")
	sym.Assert(bytes.Equal(ToBytes(x16), ToBytes(int64(x16))), "int16 and int64 keys of the same value agree")
}

func VH_C21_kind_small() {
	sym.Assert(!bytes.Equal(AppendKeys(nil, true), AppendKeys(nil, false)), "true and false give different storage keys")
	c, d := sym.U8("c"), sym.U8("d")
	if c != d {
		sym.Reach("bytes")
		sym.Assert(!bytes.Equal(AppendKeys(nil, c), AppendKeys(nil, d)), "different byte keys give different storage keys")
	}
	s := sym.String("s", sym.Len("slen", 2))
	sym.Assert(bytes.Equal(ToBytes(s), ToBytes([]byte(s))), "a string key is its bytes")
}

func VH_C21_address_keys() {
	var a1, a2 common.Address
	b1 := sym.Bytes("a1", 21)
	b2 := sym.Bytes("a2", 21)
	sym.Assume(sym.And(b1[0] <= 1, b2[0] <= 1))
	copy(a1[:], b1)
	copy(a2[:], b2)
	if !bytes.Equal(b1, b2) {
		sym.Reach("different")
		sym.Assert(!bytes.Equal(AppendKeys(nil, &a1), AppendKeys(nil, &a2)), "different addresses give different storage keys")
	}
}

// SplitKeys on arbitrary bytes: never panics, never invents bytes
func VH_C21_split_total() {
	in := sym.Bytes("in", sym.Len("n", sym.Param("NIN", 4)))
	parts, err := SplitKeys(in)
	if err != nil {
		sym.Reach("rejected")
		return
	}
	sym.Reach("accepted")
	total := 0
	for _, p := range parts {
		total += len(p)
	}
	sym.Assert(total <= len(in), "the parts are no longer than the input")
	sym.Assert(len(parts) <= len(in), "at most one part per input byte")
}

// the declared size field of a long part is honoured exactly (56 bytes, the
// first length that needs a size field) and malformed size fields are rejected
func VH_C21_size_field() {
	body := sym.Bytes("body", 56)
	sz := sym.U8("sz")
	in := append([]byte{0xb8, sz}, body...)
	part, remain, err := rlpParseBytes(in)
	if err == nil {
		sym.Reach("accepted")
		sym.Assert(sz == 56, "a size field is accepted only if it is canonical (>= 56) and the data is present")
		sym.Assert(sym.And(len(part) == 56, len(remain) == 0), "the size field delimits the part")
	} else {
		sym.Reach("rejected")
		sym.Assert(sz != 56, "a well-formed long part is accepted")
	}
}

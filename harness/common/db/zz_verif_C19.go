package db

// Harness for property C19 (layered database writes are all-or-nothing):
// the real layerDB / layerBucket over the real map database, against a
// reference map kept by the harness.

import (
	"bytes"

	"github.com/icon-project/goloop/zzverif/sym"
)

var vhC19Buckets = []BucketID{"A", "B"}
var vhC19Keys = [][]byte{{0x01}, {0x02}, {0x01, 0x00}}

type vhC19Ref map[string][]byte // bucket + "/" + key -> value (absent = not stored)

func vhC19K(b, k int) string { return string(vhC19Buckets[b]) + "/" + string(vhC19Keys[k]) }

func vhC19Val(name string) []byte {
	// values of length 0..1 (EMPTY=1): the empty value is a stored value too
	if sym.Param("EMPTY", 0) == 1 {
		return sym.Bytes(name, sym.Len(name+"_len", 1))
	}
	return sym.Bytes(name, 1)
}

func vhC19NKeys() int { return sym.Param("KEYS", 2) }

func vhC19Check(what string, get func(b, k int) ([]byte, bool), ref vhC19Ref) {
	for b := range vhC19Buckets {
		for k := 0; k < vhC19NKeys(); k++ {
			v, has := get(b, k)
			want, ok := ref[vhC19K(b, k)]
			sym.Assert(has == ok, what+": Has agrees with the reference")
			if ok {
				sym.Assert(v != nil && bytes.Equal(v, want), what+": Get returns the last value written")
			} else {
				sym.Assert(v == nil, what+": Get returns nothing for a key that is not stored")
			}
		}
	}
}

func VH_C19_layer() {
	real := NewMapDB()
	initial := vhC19Ref{}
	// arbitrary initial contents of the underlying store
	for b := range vhC19Buckets {
		for k := 0; k < vhC19NKeys(); k++ {
			if sym.Bool("init_present") {
				v := vhC19Val("init")
				bk, _ := real.GetBucket(vhC19Buckets[b])
				sym.Assert(bk.Set(vhC19Keys[k], v) == nil, "harness: preload")
				initial[vhC19K(b, k)] = v
			}
		}
	}
	ldb := NewLayerDB(real)
	ref := vhC19Ref{}
	for k, v := range initial {
		ref[k] = v
	}
	n := sym.Param("OPS", 3)
	for i := 0; i < n; i++ {
		b := sym.Choose("bucket", len(vhC19Buckets))
		k := sym.Choose("key", vhC19NKeys())
		bk, err := ldb.GetBucket(vhC19Buckets[b])
		sym.Assert(err == nil, "GetBucket succeeds")
		if sym.Bool("delete") {
			sym.Assert(bk.Delete(vhC19Keys[k]) == nil, "Delete succeeds")
			delete(ref, vhC19K(b, k))
		} else {
			v := vhC19Val("v")
			// the caller passes a scratch buffer and reuses it afterwards: the store must hold its own copy
			buf := append([]byte(nil), v...)
			if v == nil {
				buf = nil
			}
			sym.Assert(bk.Set(vhC19Keys[k], buf) == nil, "Set succeeds")
			for i := range buf {
				buf[i] ^= 0xa5
			}
			ref[vhC19K(b, k)] = v
		}
	}
	viewOf := func(d Database) func(b, k int) ([]byte, bool) {
		return func(b, k int) ([]byte, bool) {
			bk, err := d.GetBucket(vhC19Buckets[b])
			sym.Assert(err == nil, "GetBucket succeeds")
			v, err := bk.Get(vhC19Keys[k])
			sym.Assert(err == nil, "Get succeeds")
			h, err := bk.Has(vhC19Keys[k])
			sym.Assert(err == nil, "Has succeeds")
			return v, h
		}
	}
	// the layer reflects its own writes and deletes over the store
	vhC19Check("layer view", viewOf(ldb), ref)
	// ... and the store has not been touched yet
	vhC19Check("store before flush", viewOf(real), initial)
	if sym.Bool("commit") {
		sym.Reach("commit")
		sym.Assert(ldb.Flush(true) == nil, "Flush(true) succeeds")
		vhC19Check("store after commit", viewOf(real), ref)
		vhC19Check("layer after commit", viewOf(ldb), ref)
	} else {
		sym.Reach("discard")
		sym.Assert(ldb.Flush(false) == nil, "Flush(false) succeeds")
		vhC19Check("store after discard", viewOf(real), initial)
		vhC19Check("layer after discard", viewOf(ldb), initial)
	}
}

package intconv

// Harness for property C24 (integer and hex encodings are minimal and
// invertible).  Executed symbolically by gosym; natively only for replay.

import (
	"math/big"

	"github.com/icon-project/goloop/zzverif/sym"
)

// every int64: encode/decode round trip, length 1..8, minimal two's complement
func VH_C24_int64_roundtrip() {
	v := sym.I64("v")
	bs := Int64ToBytes(v)
	sym.Observe("bs", bs)
	sym.Assert(len(bs) >= 1, "int64: encoding is at least one byte")
	sym.Assert(len(bs) <= 8, "int64: encoding is at most 8 bytes")
	r, ok := SafeBytesToInt64(bs)
	sym.Assert(ok, "int64: encoding decodes")
	sym.Assert(r == v, "int64: round trip")
	if len(bs) > 1 {
		sym.Reach("multi-byte")
		if bs[0] == 0 {
			sym.Assert(bs[1]&0x80 != 0, "int64: no redundant leading 0x00")
		}
		if bs[0] == 0xff {
			sym.Assert(bs[1]&0x80 == 0, "int64: no redundant leading 0xff")
		}
	}
	if v < 0 {
		sym.Reach("negative")
		sym.Assert(bs[0]&0x80 != 0, "int64: negative has sign bit")
	} else {
		sym.Assert(bs[0]&0x80 == 0, "int64: non-negative has clear sign bit")
	}
}

// every uint64: round trip through the "positive two's complement" form
func VH_C24_uint64_roundtrip() {
	v := sym.U64("v")
	bs := Uint64ToBytes(v)
	sym.Observe("bs", bs)
	sym.Assert(len(bs) >= 1, "uint64: at least one byte")
	sym.Assert(len(bs) <= 9, "uint64: at most 9 bytes")
	r, ok := SafeBytesToUint64(bs)
	sym.Assert(ok, "uint64: encoding decodes")
	sym.Assert(r == v, "uint64: round trip")
	sym.Assert(bs[0]&0x80 == 0, "uint64: sign bit clear")
	if len(bs) > 1 {
		sym.Reach("multi-byte")
		if bs[0] == 0 {
			sym.Assert(bs[1]&0x80 != 0, "uint64: no redundant leading 0x00")
		}
	}
	if len(bs) == 9 {
		sym.Reach("nine-bytes")
	}
}

// every size: unsigned minimal big-endian
func VH_C24_size_roundtrip() {
	v := sym.U64("v")
	bs := SizeToBytes(v)
	sym.Observe("bs", bs)
	sym.Assert(len(bs) >= 1 && len(bs) <= 8, "size: 1..8 bytes")
	r, ok := SafeBytesToSize64(bs)
	sym.Assert(ok, "size: decodes")
	sym.Assert(r == v, "size: round trip")
	if len(bs) > 1 {
		sym.Assert(bs[0] != 0, "size: no leading zero byte")
	}
}

// decoding arbitrary byte strings: accept exactly the representable ones,
// value is the two's complement / unsigned interpretation
func VH_C24_decode_any() {
	n := sym.Len("n", sym.Param("DEC_N", 10))
	bs := sym.Bytes("bs", n)
	// oracles, written independently of the code under test
	var sx int64
	if n > 0 && bs[0]&0x80 != 0 {
		sx = -1
	}
	for _, b := range bs {
		sx = sx<<8 | int64(b)
	}
	var ux uint64
	for _, b := range bs {
		ux = ux<<8 | uint64(b)
	}
	iv, iok := SafeBytesToInt64(bs)
	sym.Assert(iok == (n <= 8), "SafeBytesToInt64 accepts exactly lengths 0..8")
	if iok {
		sym.Assert(iv == sx, "SafeBytesToInt64 value is the two's complement reading")
	}
	sv, sok := SafeBytesToSize64(bs)
	sym.Assert(sok == (n <= 8), "SafeBytesToSize64 accepts exactly lengths 0..8")
	if sok {
		sym.Assert(sv == ux, "SafeBytesToSize64 value is the unsigned reading")
	}
	uv, uok := SafeBytesToUint64(bs)
	want := n == 0
	if n > 0 {
		if bs[0] == 0 {
			want = n <= 9
		} else if bs[0]&0x80 == 0 {
			want = n <= 8
		}
	}
	sym.Assert(uok == want, "SafeBytesToUint64 accepts exactly the non-negative values below 2^64")
	if uok {
		sym.Assert(uv == ux, "SafeBytesToUint64 value is the unsigned reading")
	}
}

// big integers (real math/big code on symbolic words): every byte string of
// length 1..N read as two's complement, re-encoded: minimal, equal to the
// canonical form of the input, and equal to the int64 encoder when it fits.
func VH_C24_bigint_roundtrip() {
	n := sym.Range("n", 1, sym.Param("BIG_N", 9))
	bs := sym.Bytes("bs", n)
	x := BigIntSetBytes(new(big.Int), bs)
	out := BigIntToBytes(x)
	sym.Observe("out", out)
	// canonical form of the input: strip redundant sign bytes
	k := 0
	for k+1 < n {
		if bs[k] == 0 && bs[k+1]&0x80 == 0 {
			k++
		} else if bs[k] == 0xff && bs[k+1]&0x80 != 0 {
			k++
		} else {
			break
		}
	}
	canon := bs[k:]
	sym.Assert(len(out) == len(canon), "bigint: encoding has the canonical (minimal) length")
	for i := range canon {
		sym.Assert(out[i] == canon[i], "bigint: encoding equals the canonical form of the input")
	}
	y := BigIntSetBytes(new(big.Int), out)
	sym.Assert(x.Cmp(y) == 0, "bigint: decode(encode(x)) == x")
	if len(canon) <= 8 {
		sym.Reach("fits-int64")
		v, _ := SafeBytesToInt64(canon)
		sym.Assert(x.IsInt64() && x.Int64() == v, "bigint: agrees with the int64 decoder")
		e := Int64ToBytes(v)
		sym.Assert(len(e) == len(out), "bigint: same length as the int64 encoder")
		for i := range e {
			sym.Assert(e[i] == out[i], "bigint: same bytes as the int64 encoder")
		}
	} else {
		sym.Reach("beyond-int64")
	}
}

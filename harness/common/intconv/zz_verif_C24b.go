package intconv

// C24, hex text: FormatBigInt / ParseBigInt and FormatInt / ParseInt,
// FormatUint / ParseUint round-trip (real math/big scanning and strconv on
// symbolic characters).  Magnitudes of 0..HEX_N bytes whose first and last
// byte are arbitrary and whose middle bytes are all 0x00, 0x80 or 0xff - the
// word-size and sign boundaries (2^63, 2^64 +-) are inside - with either sign.

import (
	"math/big"

	"github.com/icon-project/goloop/zzverif/sym"
)

func vhC24Magnitude(maxLen int) []byte {
	n := sym.Range("len", 0, maxLen)
	mag := make([]byte, n)
	filler := []byte{0x00, 0x80, 0xff}[sym.Choose("filler", 3)]
	for i := range mag {
		mag[i] = filler
	}
	if n > 0 {
		mag[0] = sym.U8("first")
	}
	if n > 1 {
		mag[n-1] = sym.U8("last")
	}
	return mag
}

func VH_C24_hex_bigint() {
	mag := vhC24Magnitude(sym.Param("HEX_N", 9))
	v := new(big.Int).SetBytes(mag)
	if sym.Bool("negative") {
		v.Neg(v)
	}
	s := FormatBigInt(v)
	sym.Assert(len(s) >= 3, "hex text has a prefix and a digit")
	var back big.Int
	err := ParseBigInt(&back, s)
	sym.Assert(err == nil, "hex text of a big integer parses")
	sym.Assert(back.Cmp(v) == 0, "hex text of a big integer parses back to the same number")
	// minimal: no leading zero digit except for zero itself
	digits := s[2:]
	if s[0] == '-' {
		digits = s[3:]
	}
	sym.Assert(len(digits) == 1 || digits[0] != '0', "hex text has no leading zero digit")
	sym.Reach("hex-bigint")
}

func VH_C24_hex_int64() {
	mag := vhC24Magnitude(8)
	var u uint64
	for _, b := range mag {
		u = u<<8 | uint64(b)
	}
	// unsigned
	su := FormatUint(u)
	bu, err := ParseUint(su, 64)
	sym.Assert(err == nil && bu == u, "hex text of an unsigned 64-bit integer parses back to the same number")
	// signed: the value with this bit pattern
	v := int64(u)
	sv := FormatInt(v)
	bv, err := ParseInt(sv, 64)
	sym.Assert(err == nil && bv == v, "hex text of a signed 64-bit integer parses back to the same number")
	var bb big.Int
	sym.Assert(ParseBigInt(&bb, sv) == nil && bb.IsInt64() && bb.Int64() == v, "the big integer parser reads the text of a signed 64-bit integer as the same number")
	sym.Reach("hex-int64")
}

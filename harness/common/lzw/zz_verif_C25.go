package lzw

// Harness for property C25, step lemmas of the real LZW writer from an
// ARBITRARY mid-stream state (the whole-stream harness in package common only
// reaches inputs of a few bytes, far from the points where the code width
// grows): closing the stream, and emitting one code, produce exactly the bits
// the legacy format prescribes for every dictionary size hi and code width.

import (
	"bytes"

	"github.com/icon-project/goloop/zzverif/sym"
)

// an arbitrary consistent writer state: width w in 9..12, overflow = 2^w,
// hi in [max(257, 2^(w-1)), 2^w) and below maxCode
func vhC25State() (*Writer, *bytes.Buffer) {
	buf := bytes.NewBuffer(nil)
	w := newWriter(buf, MSB, 8)
	width := uint(9 + sym.Choose("width", 4))
	hi := sym.U32("hi")
	lo := uint32(1) << (width - 1)
	if lo < 257 {
		lo = 257
	}
	sym.Assume(sym.And(hi >= lo, hi < uint32(1)<<width, hi < maxCode))
	w.width = width
	w.overflow = uint32(1) << width
	w.hi = hi
	return w, buf
}

// MSB-first packing of (code, width) pairs, zero padded to a byte
func vhC25Pack(codes []uint32, widths []uint) []byte {
	var out []byte
	var acc uint64
	n := uint(0)
	for i, c := range codes {
		acc = acc<<widths[i] | uint64(c)
		n += widths[i]
		for n >= 8 {
			out = append(out, byte(acc>>(n-8)))
			n -= 8
			acc &= 1<<n - 1
		}
	}
	if n > 0 {
		out = append(out, byte(acc<<(8-n)))
	}
	return out
}

// Close from any state: the pending code goes out at the current width, the
// dictionary grows by one (which may widen the codes, or, at the very last
// code, emit a clear code and fall back to 9 bits), then the EOF code follows
func VH_C25_close_step() {
	w, buf := vhC25State()
	width, hi := w.width, w.hi
	code := sym.U32("pending")
	sym.Assume(code <= hi)
	w.savedCode = code
	sym.Assert(w.Close() == nil, "Close succeeds")
	codes := []uint32{code}
	widths := []uint{width}
	nw := width
	if hi+1 == uint32(1)<<width {
		sym.Reach("width-grows-before-eof")
		nw = width + 1
	}
	if hi+1 == maxCode {
		sym.Reach("table-full")
		codes = append(codes, 256) // clear
		widths = append(widths, nw)
		nw = 9
	}
	codes = append(codes, 257) // EOF
	widths = append(widths, nw)
	sym.Assert(bytes.Equal(buf.Bytes(), vhC25Pack(codes, widths)), "Close emits the pending code, grows the dictionary (widening the codes when it fills a power of two) and then the EOF code")
}

// one more input byte that is not in the dictionary: the current code goes out
// at the current width and the width grows exactly when the dictionary size
// reaches a power of two
func VH_C25_emit_step() {
	w, buf := vhC25State()
	width, hi := w.width, w.hi
	sym.Assume(hi+1 != maxCode) // the reset case is covered by the close lemma
	code := sym.U32("current")
	sym.Assume(code <= hi)
	w.savedCode = code
	lit := sym.U8("literal")
	n, err := w.Write([]byte{lit}) // table is empty: (code, lit) is a new string
	sym.Assert(err == nil && n == 1, "Write succeeds")
	// flush the bit buffer through Close to observe the emitted code
	sym.Assert(w.Close() == nil, "Close succeeds")
	w1 := width
	if hi+1 == uint32(1)<<width {
		sym.Reach("width-grows")
		w1 = width + 1
	}
	hi1 := hi + 1
	w2 := w1
	codes := []uint32{code, uint32(lit)}
	widths := []uint{width, w1}
	if hi1+1 == uint32(1)<<w1 {
		w2 = w1 + 1
	}
	if hi1+1 == maxCode {
		codes = append(codes, 256)
		widths = append(widths, w2)
		w2 = 9
	}
	codes = append(codes, 257)
	widths = append(widths, w2)
	sym.Assert(bytes.Equal(buf.Bytes(), vhC25Pack(codes, widths)), "a new string emits the current code at the current width and widens the codes exactly at powers of two")
}

package lzw

// C25, dictionary lemma of the real writer: from an arbitrary mid-stream
// state with an empty string table, TABLE_K arbitrary distinct strings
// (prefix code, byte) are entered by the real Write loop - wherever they hash
// to, also colliding ones at the end of the table - and each of them is found
// again afterwards (no code is emitted, the pending code becomes its code).
// A missed match would emit other codes than the legacy encoder.

import (
	"github.com/icon-project/goloop/zzverif/sym"
)

func VH_C25_table_step() {
	w, _ := vhC25State()
	k := sym.Param("TABLE_K", 2)
	// no widening / reset while the strings are entered (those are the other lemmas)
	sym.Assume(sym.And(w.hi+uint32(k)+1 < uint32(1)<<w.width, w.hi+uint32(k)+1 < maxCode))
	type ent struct {
		code     uint32
		lit      byte
		assigned uint32
	}
	var ents []ent
	for i := 0; i < k; i++ {
		c := sym.U32("code")
		x := sym.U8("lit")
		sym.Assume(c <= w.hi)
		for _, p := range ents {
			sym.Assume(sym.Or(p.code != c, p.lit != x))
		}
		w.savedCode = c
		n, err := w.Write([]byte{x})
		sym.Assert(err == nil && n == 1, "Write succeeds")
		sym.Assert(w.savedCode == uint32(x), "a new string makes its last byte the pending code")
		ents = append(ents, ent{c, x, w.hi})
	}
	j := sym.Choose("lookup", k)
	hiBefore := w.hi
	w.savedCode = ents[j].code
	n, err := w.Write([]byte{ents[j].lit})
	sym.Assert(err == nil && n == 1, "Write succeeds")
	sym.Assert(sym.And(w.savedCode == ents[j].assigned, w.hi == hiBefore), "a string entered into the dictionary is found again: nothing is emitted and the pending code becomes the string's code")
	sym.Reach("table-lookup")
}

package merkle

// Harness for property C20 (state sync rebuilds exactly the trusted state and
// stores nothing else): the real merkleBuilder over the real layered map
// database.  The "state" is a three-node tree whose node payloads are symbolic
// bytes; requesters ask for their children when their own data arrives (what
// trie nodes do in Resolve).  Deliveries arrive in any order, interleaved with
// forged or unrequested payloads.  SHA3 is uninterpreted and collision-free.

import (
	"bytes"

	"github.com/icon-project/goloop/common/db"
	"github.com/icon-project/goloop/zzverif/sym"
)

type vhC20Node struct {
	payload  []byte
	children []int
}

type vhC20Tree struct {
	nodes []*vhC20Node
	got   []int // how many times node i's requester was handed its data
}

type vhC20Requester struct {
	t *vhC20Tree
	i int
}

func vhC20Hash(v []byte) []byte { return db.MerkleTrie.Hasher().Hash(v) }

func (r *vhC20Requester) OnData(value []byte, b Builder) error {
	n := r.t.nodes[r.i]
	sym.Assert(bytes.Equal(value, n.payload), "a requester is handed exactly the data it asked for")
	r.t.got[r.i]++
	for _, c := range n.children {
		b.RequestData(db.MerkleTrie, vhC20Hash(r.t.nodes[c].payload), &vhC20Requester{r.t, c})
	}
	return nil
}

func VH_C20_sync() {
	t := &vhC20Tree{}
	shapes := [][][]int{
		{{1, 2}, {}, {}}, // root with two leaves
		{{1}, {2}, {}},   // chain
	}
	shape := shapes[sym.Choose("shape", len(shapes))]
	for i := range shape {
		t.nodes = append(t.nodes, &vhC20Node{payload: sym.Bytes("node", 2), children: shape[i]})
		t.got = append(t.got, 0)
	}
	// node payloads are pairwise different (equal sub-trees would share one request)
	for i := range t.nodes {
		for j := i + 1; j < len(t.nodes); j++ {
			sym.Assume(!bytes.Equal(t.nodes[i].payload, t.nodes[j].payload))
		}
	}
	real := db.NewMapDB()
	b := NewBuilder(real)
	b.RequestData(db.MerkleTrie, vhC20Hash(t.nodes[0].payload), &vhC20Requester{t, 0})
	outstanding := map[int]bool{0: true}
	stored := map[int]bool{}
	var forged [][]byte
	sym.Assert(b.UnresolvedCount() == 1, "one request is outstanding for the trusted root")

	k := sym.Param("DELIVERIES", 4)
	for d := 0; d < k; d++ {
		var v []byte
		which := sym.Choose("deliver", len(t.nodes)+1)
		if which < len(t.nodes) {
			v = t.nodes[which].payload // true data of some node: requested, not yet requested, or a duplicate
		} else {
			v = sym.Bytes("forged", 2)
			isNode := false
			for _, n := range t.nodes {
				if bytes.Equal(v, n.payload) {
					isNode = true
				}
			}
			sym.Assume(!isNode)
			forged = append(forged, v)
			which = -1
		}
		err := b.OnData(db.MerkleTrie, v)
		if which >= 0 && outstanding[which] {
			sym.Reach("accepted")
			sym.Assert(err == nil, "requested data is accepted")
			delete(outstanding, which)
			stored[which] = true
			for _, c := range t.nodes[which].children {
				outstanding[c] = true
			}
		} else {
			sym.Reach("refused")
			sym.Assert(err == ErrNoRequester, "data nobody asked for (forged, early or duplicate) is refused")
		}
		sym.Assert(b.UnresolvedCount() == len(outstanding), "the number of outstanding requests follows the deliveries")
		sym.Assert(b.ResolvedCount() == len(stored), "the number of resolved requests follows the deliveries")
	}
	complete := len(stored) == len(t.nodes)
	sym.Assert((b.UnresolvedCount() == 0) == complete, "no outstanding request exactly when every node of the state has been stored")
	if complete {
		sym.Reach("complete")
	}
	// what reaches the store: exactly the accepted nodes, nothing else
	sym.Assert(b.Flush(true) == nil, "flush succeeds")
	bk, err := real.GetBucket(db.MerkleTrie)
	sym.Assert(err == nil, "bucket")
	for i, n := range t.nodes {
		got, err := bk.Get(vhC20Hash(n.payload))
		sym.Assert(err == nil, "get")
		if stored[i] {
			sym.Assert(bytes.Equal(got, n.payload), "an accepted node is stored under its hash")
			sym.Assert(t.got[i] == 1, "its requester was notified once")
		} else {
			sym.Assert(got == nil, "a node that was never requested-and-delivered is not stored")
			sym.Assert(t.got[i] == 0, "its requester was never notified")
		}
	}
	for _, v := range forged {
		got, _ := bk.Get(vhC20Hash(v))
		sym.Assert(got == nil, "forged data is never stored")
	}
}

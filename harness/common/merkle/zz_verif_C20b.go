package merkle

// C20, continued: the same data wanted in two different buckets (for example a
// trie node whose bytes are also a stored blob) is stored in both when it arrives.

import (
	"bytes"

	"github.com/icon-project/goloop/common/db"
	"github.com/icon-project/goloop/zzverif/sym"
)

type vhC20Plain struct{ got int }

func (r *vhC20Plain) OnData(value []byte, b Builder) error { r.got++; return nil }

func VH_C20_two_buckets() {
	real := db.NewMapDB()
	b := NewBuilder(real)
	payload := sym.Bytes("payload", 2)
	h := vhC20Hash(payload)
	r1, r2 := &vhC20Plain{}, &vhC20Plain{}
	first, second := db.MerkleTrie, db.BytesByHash
	if sym.Bool("blob_first") {
		first, second = second, first
	}
	b.RequestData(first, h, r1)
	b.RequestData(second, h, r2)
	sym.Assert(b.UnresolvedCount() == 1, "one hash is outstanding")
	sym.Assert(b.OnData(first, payload) == nil, "requested data is accepted")
	sym.Assert(b.UnresolvedCount() == 0, "nothing is outstanding afterwards")
	sym.Assert(r1.got == 1 && r2.got == 1, "both requesters are notified once")
	sym.Assert(b.Flush(true) == nil, "flush succeeds")
	for _, id := range []db.BucketID{db.MerkleTrie, db.BytesByHash} {
		bk, err := real.GetBucket(id)
		sym.Assert(err == nil, "bucket")
		got, err := bk.Get(h)
		sym.Assert(err == nil && bytes.Equal(got, payload), "the data is stored in every bucket it was requested for")
	}
	sym.Reach("both-stored")
}

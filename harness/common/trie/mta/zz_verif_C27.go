package mta

// Harness for property C27 (the Merkle accumulator works for every length).
// Item data are symbolic bytes; SHA3 is uninterpreted with collision-freeness
// axioms; the length n and the index i are case-split.

import (
	"errors"

	"github.com/icon-project/goloop/common/crypto"
	"github.com/icon-project/goloop/zzverif/sym"
)

type vhC27Bucket struct {
	m      map[string][]byte
	writes int
	failAt int // > 0: the failAt-th write from now on and every later one fail
}

func (b *vhC27Bucket) Get(key []byte) ([]byte, error) { return b.m[string(key)], nil }
func (b *vhC27Bucket) Has(key []byte) (bool, error) {
	_, ok := b.m[string(key)]
	return ok, nil
}
func (b *vhC27Bucket) Set(key []byte, value []byte) error {
	b.writes++
	if b.failAt > 0 && b.writes >= b.failAt {
		return errors.New("harness: write fault") // this write and every later one fail: the process is going down
	}
	b.m[string(key)] = append([]byte{}, value...)
	return nil
}
func (b *vhC27Bucket) Delete(key []byte) error {
	delete(b.m, string(key))
	return nil
}

// summaries of encoding/json for the accumulator state (used only under
// gosym through the "replace" table of props/C27.json; natively the real
// encoding/json runs)
var vhC27Saved []*serializedMTAccumulator

func vhC27Marshal(v interface{}) ([]byte, error) {
	s := v.(*serializedMTAccumulator)
	c := &serializedMTAccumulator{Length: s.Length}
	for _, r := range s.Roots {
		if r == nil {
			c.Roots = append(c.Roots, nil)
		} else {
			c.Roots = append(c.Roots, append([]byte{}, r...))
		}
	}
	vhC27Saved = append(vhC27Saved, c)
	return []byte{'s', byte(len(vhC27Saved) - 1)}, nil
}

func vhC27Unmarshal(bs []byte, v interface{}) error {
	s := v.(*serializedMTAccumulator)
	*s = *vhC27Saved[bs[1]]
	return nil
}

func vhC27Build(n int, symbolic bool) (*Accumulator, [][]byte, *vhC27Bucket) {
	bk := &vhC27Bucket{m: map[string][]byte{}}
	acc := &Accumulator{KeyForState: []byte("state"), Bucket: bk}
	data := make([][]byte, n)
	for i := range data {
		if symbolic {
			data[i] = sym.Bytes("d", 1)
		} else {
			// persisted nodes are looked up by hash in the bucket: distinct concrete
			// data keep the bucket keys concrete (hashes computed natively)
			data[i] = []byte{byte(i + 1), 0x5a}
		}
		w := acc.AddData(data[i])
		sym.Assert(acc.Len() == int64(i+1), "Len counts the appended items")
		sym.Assert(acc.Verify(w, crypto.SHA3Sum256(data[i])) == nil, "the witness returned by AddData verifies against the new roots")
	}
	return acc, data, bk
}

// every item of every length has a witness that verifies, and only for its own data
func VH_C27_witness() {
	n := sym.Range("n", 1, sym.Param("N", 9))
	acc, data, _ := vhC27Build(n, true)
	i := sym.Choose("i", n)
	w, err := acc.WitnessFor(int64(i))
	sym.Assert(err == nil, "WitnessFor succeeds for every index below the length")
	sym.Assert(acc.Verify(w, crypto.SHA3Sum256(data[i])) == nil, "the witness verifies against the current roots")
	x := sym.Bytes("x", 1)
	if x[0] != data[i][0] {
		sym.Reach("other-data")
		sym.Assert(acc.Verify(w, crypto.SHA3Sum256(x)) != nil, "the witness does not verify other data")
	}
	_, err = acc.WitnessFor(int64(n))
	sym.Assert(err != nil, "WitnessFor fails for an index at or beyond the length")
}

// persisted and recovered: same length, same witnesses
func VH_C27_flush_recover() {
	n := sym.Range("n", 1, sym.Param("N", 9))
	acc, data, bk := vhC27Build(n, false)
	sym.Assert(acc.Flush() == nil, "Flush succeeds")
	rec := &Accumulator{KeyForState: []byte("state"), Bucket: bk}
	sym.Assert(rec.Recover() == nil, "Recover succeeds")
	sym.Assert(rec.Len() == int64(n), "recovered length")
	i := sym.Choose("i", n)
	w, err := rec.WitnessFor(int64(i))
	sym.Assert(err == nil, "WitnessFor succeeds on the recovered accumulator")
	h := crypto.SHA3Sum256(data[i])
	sym.Assert(rec.Verify(w, h) == nil, "the recovered witness verifies against the recovered roots")
	sym.Assert(acc.Verify(w, h) == nil, "the recovered witness verifies against the original roots")
	w0, err := acc.WitnessFor(int64(i))
	sym.Assert(err == nil && len(w0) == len(w), "same witness length before and after recovery")
	for k := range w {
		sym.Assert(w0[k].Direction == w[k].Direction && string(w0[k].HashValue) == string(w[k].HashValue), "same witness before and after recovery")
	}
	// appending after recovery keeps working
	d := sym.Bytes("d2", 1)
	wn := rec.AddData(d)
	sym.Assert(rec.Len() == int64(n+1), "append after recovery")
	sym.Assert(rec.Verify(wn, crypto.SHA3Sum256(d)) == nil, "witness of an item appended after recovery verifies")
}

package mta

// C27, continued: Recover() on an accumulator that has been used since its
// last Flush rolls it back to exactly the flushed state, for every flushed
// length and every number of unflushed appends.

import (
	"github.com/icon-project/goloop/common/crypto"
	"github.com/icon-project/goloop/zzverif/sym"
)

func VH_C27_recover_rollback() {
	n := sym.Range("n", 1, sym.Param("N", 9))
	acc, data, _ := vhC27Build(n, false)
	sym.Assert(acc.Flush() == nil, "Flush succeeds")
	extra := sym.Range("unflushed", 1, 3)
	for i := 0; i < extra; i++ {
		acc.AddData([]byte{0xee, byte(i)})
	}
	sym.Assert(acc.Recover() == nil, "Recover succeeds on a used accumulator")
	sym.Assert(acc.Len() == int64(n), "Recover rolls the length back to the flushed one")
	// it behaves like a clean accumulator of the first n items from here on
	clean, _, _ := vhC27Build(n, false)
	d := []byte{0xdd, 0x01}
	w1 := acc.AddData(d)
	w2 := clean.AddData(d)
	sym.Assert(acc.Len() == clean.Len(), "same length after appending")
	sym.Assert(acc.Verify(w1, crypto.SHA3Sum256(d)) == nil, "the witness of an item appended after the roll-back verifies")
	sym.Assert(clean.Verify(w1, crypto.SHA3Sum256(d)) == nil && acc.Verify(w2, crypto.SHA3Sum256(d)) == nil, "the rolled-back accumulator has the same roots as a clean one")
	i := sym.Choose("i", n)
	w, err := acc.WitnessFor(int64(i))
	sym.Assert(err == nil && acc.Verify(w, crypto.SHA3Sum256(data[i])) == nil, "old items keep verifying witnesses after the roll-back")
	sym.Reach("rolled-back")
}

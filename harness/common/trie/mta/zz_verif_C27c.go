package mta

// C27, continued: a Flush cut short by a write fault (the process going down
// in the middle of it) leaves a store from which a restart recovers a working
// accumulator - of the previously flushed length or of the new one - whose
// every item still has a verifying witness.

import (
	"github.com/icon-project/goloop/common/crypto"
	"github.com/icon-project/goloop/zzverif/sym"
)

func VH_C27_flush_fault() {
	n1 := sym.Range("n", 1, sym.Param("NF", 6))
	acc, data, bk := vhC27Build(n1, false)
	sym.Assert(acc.Flush() == nil, "Flush succeeds")
	extra := sym.Range("more", 1, 3)
	for i := 0; i < extra; i++ {
		d := []byte{byte(0x80 + i), 0x5b}
		acc.AddData(d)
		data = append(data, d)
	}
	bk.writes = 0
	bk.failAt = 1 + sym.Choose("fault_at_write", 8) // the k-th write of the second Flush fails (k beyond its writes: no fault)
	err := acc.Flush()
	bk.failAt = 0
	// restart on the same store
	acc2 := &Accumulator{KeyForState: []byte("state"), Bucket: bk}
	sym.Assert(acc2.Recover() == nil, "a restart after an interrupted Flush recovers")
	l := int(acc2.Len())
	if err == nil {
		sym.Assert(l == n1+extra, "a Flush that reported success is what a restart recovers")
	} else {
		sym.Reach("flush-interrupted")
		sym.Assert(l == n1 || l == n1+extra, "an interrupted Flush leaves the old or the new length")
	}
	if l == n1 || l == n1+extra {
		i := sym.Choose("i", l)
		w, werr := acc2.WitnessFor(int64(i))
		sym.Assert(werr == nil, "after a restart every item of the recovered length has a witness")
		if werr == nil {
			sym.Assert(acc2.Verify(w, crypto.SHA3Sum256(data[i])) == nil, "and it verifies against the recovered roots")
		}
	}
}

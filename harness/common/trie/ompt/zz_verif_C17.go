package ompt

// Harness for properties C17 (the Merkle Patricia trie is a canonical map)
// and C18 (trie proofs are sound and complete): the real ompt code for byte
// values over the real map database.  Keys come from a small set chosen to
// produce every node shape (leaf, extension, branch, branch with value, key
// that is a prefix of another); values are symbolic.  SHA3 is uninterpreted
// and collision-free (calcHash is replaced by the one-shot SHA3 of the
// concatenation under gosym; natively the real streaming hash runs).

import (
	"bytes"
	"sort"

	"github.com/icon-project/goloop/common/crypto"
	"github.com/icon-project/goloop/common/db"
	"github.com/icon-project/goloop/zzverif/sym"
)

func vhC17CalcHash(data ...[]byte) []byte {
	var all []byte
	for _, d := range data {
		all = append(all, d...)
	}
	return crypto.SHA3Sum256(all)
}

var vhC17Keys = [][]byte{
	{0x12},
	{0x12, 0x34},
	{0x12, 0x35},
	{0x13},
	{0x52, 0x34},
	{},
}

func vhC17NKeys() int { return sym.Param("KEYS", 4) }

func vhC17Value(name string) []byte { return vhC17ValueP(name, "LONGV") }

func vhC17ValueP(name, param string) []byte {
	if sym.Param(param, 0) == 1 && sym.Bool(name+"_long") {
		// long enough that the node holding it is stored by hash, not embedded
		v := make([]byte, 33)
		copy(v, sym.Bytes(name, 2))
		return v
	}
	return sym.Bytes(name, 1)
}

type vhC17Ref map[int][]byte // key index -> value

func vhC17Apply(m *mptForBytes, ref vhC17Ref, tag string) {
	k := sym.Choose(tag+"key", vhC17NKeys())
	if sym.Bool(tag + "delete") {
		old, err := m.Delete(vhC17Keys[k])
		sym.Assert(err == nil, "Delete succeeds")
		want, had := ref[k]
		if had {
			sym.Assert(bytes.Equal(old, want), "Delete returns the value that was stored")
		} else {
			sym.Assert(old == nil, "Delete of an absent key returns nothing")
		}
		delete(ref, k)
	} else {
		v := vhC17Value(tag + "v")
		old, err := m.Set(vhC17Keys[k], v)
		sym.Assert(err == nil, "Set succeeds")
		want, had := ref[k]
		if had {
			sym.Assert(bytes.Equal(old, want), "Set returns the value it replaces")
		} else {
			sym.Assert(old == nil, "Set of a new key returns nothing")
		}
		ref[k] = v
	}
}

type vhC17Getter interface {
	Get(k []byte) ([]byte, error)
}

func vhC17CheckGets(what string, m vhC17Getter, ref vhC17Ref) {
	for k := 0; k < vhC17NKeys(); k++ {
		got, err := m.Get(vhC17Keys[k])
		sym.Assert(err == nil, what+": Get succeeds")
		if want, ok := ref[k]; ok {
			sym.Assert(bytes.Equal(got, want), what+": lookup returns the last value written")
		} else {
			sym.Assert(got == nil, what+": lookup of a key that is not stored returns nothing")
		}
	}
}

func vhC17SortedKeys(ref vhC17Ref) []int {
	var ks []int
	for k := range ref {
		ks = append(ks, k)
	}
	sort.Slice(ks, func(i, j int) bool { return bytes.Compare(vhC17Keys[ks[i]], vhC17Keys[ks[j]]) < 0 })
	return ks
}

func vhC17Copy(ref vhC17Ref) vhC17Ref {
	c := vhC17Ref{}
	for k, v := range ref {
		c[k] = v
	}
	return c
}

// map semantics, ordered iteration, prefix iteration, snapshot isolation
func VH_C17_map() {
	m := NewMPTForBytes(db.NewMapDB(), nil)
	ref := vhC17Ref{}
	n := sym.Param("OPS", 3)
	snapAt := sym.Choose("snapshot_after", n)
	var snap *mptForBytes
	var snapRef vhC17Ref
	for i := 0; i < n; i++ {
		vhC17Apply(m, ref, "op_")
		if i == snapAt {
			snap = m.GetSnapshot().(*mptForBytes)
			snapRef = vhC17Copy(ref)
		}
	}
	vhC17CheckGets("trie", m, ref)
	vhC17CheckGets("snapshot", snap, snapRef)
	// iteration: exactly the stored pairs in ascending key order
	want := vhC17SortedKeys(ref)
	i := 0
	for it := m.Iterator(); it.Has(); it.Next() {
		v, k, err := it.Get()
		sym.Assert(err == nil, "iteration succeeds")
		sym.Assert(i < len(want), "iteration returns no pair that is not stored")
		if i < len(want) {
			sym.Assert(bytes.Equal(k, vhC17Keys[want[i]]) && bytes.Equal(v, ref[want[i]]), "iteration returns the stored pairs in ascending key order")
		}
		i++
	}
	sym.Assert(i == len(want), "iteration returns every stored pair")
	// prefix iteration
	prefix := []byte{0x12}
	var wantP []int
	for _, k := range want {
		if bytes.HasPrefix(vhC17Keys[k], prefix) {
			wantP = append(wantP, k)
		}
	}
	i = 0
	if it := m.Filter(prefix); it != nil {
		for ; it.Has(); it.Next() {
			v, k, err := it.Get()
			sym.Assert(err == nil, "prefix iteration succeeds")
			sym.Assert(i < len(wantP), "prefix iteration returns only pairs with the prefix")
			if i < len(wantP) {
				sym.Assert(bytes.Equal(k, vhC17Keys[wantP[i]]) && bytes.Equal(v, ref[wantP[i]]), "prefix iteration returns the pairs with the prefix in order")
			}
			i++
		}
	}
	sym.Assert(i == len(wantP), "prefix iteration returns every pair with the prefix")
	sym.Reach("map-done")
}

// the root hash depends only on the stored pairs: building the final map in
// canonical order on a fresh trie gives the same root; so does flushing and
// reloading from the database
func VH_C17_canonical_root() {
	store := db.NewMapDB()
	m := NewMPTForBytes(store, nil)
	ref := vhC17Ref{}
	n := sym.Param("OPS", 3)
	for i := 0; i < n; i++ {
		vhC17Apply(m, ref, "op_")
		if sym.Bool("snapshot_between") {
			_ = m.GetSnapshot() // taking snapshots must not influence the result
		}
	}
	s1 := m.GetSnapshot().(*mptForBytes)
	h1 := s1.Hash()
	m2 := NewMPTForBytes(db.NewMapDB(), nil)
	for _, k := range vhC17SortedKeys(ref) {
		_, err := m2.Set(vhC17Keys[k], ref[k])
		sym.Assert(err == nil, "Set succeeds")
	}
	h2 := m2.GetSnapshot().(*mptForBytes).Hash()
	sym.Assert(bytes.Equal(h1, h2), "the root hash depends only on the stored pairs, not on the operation order")
	if len(ref) == 0 {
		sym.Reach("empty")
		sym.Assert(h1 == nil, "the empty trie has no root hash")
		return
	}
	sym.Reach("non-empty")
	// flush and reload from the database by root hash
	sym.Assert(s1.Flush() == nil, "Flush succeeds")
	loaded := NewMPTForBytes(store, h1)
	vhC17CheckGets("reloaded trie", loaded, ref)
	sym.Assert(bytes.Equal(loaded.Hash(), h1), "the reloaded trie has the same root hash")
}

// C18: proofs
func VH_C18_proofs() {
	store := db.NewMapDB()
	m := NewMPTForBytes(store, nil)
	ref := vhC17Ref{}
	n := sym.Param("OPS", 3)
	for i := 0; i < n; i++ {
		vhC17Apply(m, ref, "op_")
	}
	s := m.GetSnapshot().(*mptForBytes)
	root := s.Hash()
	if len(ref) == 0 {
		return
	}
	k := sym.Choose("probe", vhC17NKeys())
	proof := s.GetProof(vhC17Keys[k])
	verifier := NewMPTForBytes(db.NewMapDB(), root)
	got, err := verifier.Prove(vhC17Keys[k], proof)
	if want, ok := ref[k]; ok {
		sym.Reach("stored")
		sym.Assert(proof != nil, "a stored key has a proof")
		sym.Assert(err == nil, "the proof of a stored key verifies against the root hash")
		sym.Assert(bytes.Equal(got, want), "a verified proof yields the stored value")
		// an altered proof is rejected
		if len(proof) > 0 {
			e := sym.Choose("elem", len(proof))
			pos := int(sym.U16("pos")) // a symbolic position: one query covers every byte of the element
			sym.Assume(pos < len(proof[e]))
			mask := sym.U8("mask")
			sym.Assume(mask != 0)
			bad := make([][]byte, len(proof))
			for i := range proof {
				bad[i] = append([]byte{}, proof[i]...)
			}
			bad[e][pos] ^= mask
			v2 := NewMPTForBytes(db.NewMapDB(), root)
			got2, err2 := v2.Prove(vhC17Keys[k], bad)
			sym.Assert(err2 != nil || bytes.Equal(got2, want), "an altered proof never yields a different value")
			if e == 0 {
				sym.Assert(err2 != nil, "a proof whose root element was altered is rejected")
			}
		}
		// a proof for another root is rejected
		other := sym.Bytes("other_root", 32)
		sym.Assume(!bytes.Equal(other, root))
		v3 := NewMPTForBytes(db.NewMapDB(), other)
		_, err3 := v3.Prove(vhC17Keys[k], proof)
		sym.Assert(err3 != nil, "a proof that belongs to another root is rejected")
	} else {
		sym.Reach("absent")
		sym.Assert(err != nil || got == nil, "the proof for an absent key never yields a value")
	}
}

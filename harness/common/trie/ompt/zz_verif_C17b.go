package ompt

// C17, continued: operations applied to a trie that was flushed and reloaded
// from the database (its untouched nodes are known only by hash), or whose
// cache was cleared, still give the canonical root of the resulting pairs.

import (
	"bytes"

	"github.com/icon-project/goloop/common/db"
	"github.com/icon-project/goloop/zzverif/sym"
)

func VH_C17_modify_after_reload() {
	store := db.NewMapDB()
	m := NewMPTForBytes(store, nil)
	ref := vhC17Ref{}
	// before the flush: the first OPS1 keys of the key set, each with a short or long value
	n := sym.Param("OPS1", 3)
	for k := 0; k < n; k++ {
		v := vhC17ValueP("pre_v", "LONGV2")
		_, err := m.Set(vhC17Keys[k], v)
		sym.Assert(err == nil, "Set succeeds")
		ref[k] = v
	}
	s1 := m.GetSnapshot().(*mptForBytes)
	h1 := s1.Hash()
	sym.Assert(s1.Flush() == nil, "Flush succeeds")
	var m2 *mptForBytes
	if sym.Bool("clear_cache") {
		sym.Reach("cache-cleared")
		s1.ClearCache()
		m2 = MPTFromImmutableForBytes(s1)
	} else {
		sym.Reach("reloaded")
		m2 = NewMPTForBytes(store, h1)
	}
	sym.Assert(m2 != nil, "a mutable trie can be derived")
	ops := sym.Param("OPS2", 2)
	for i := 0; i < ops; i++ {
		vhC17Apply(m2, ref, "post_")
	}
	vhC17CheckGets("modified reloaded trie", m2, ref)
	h2 := m2.GetSnapshot().(*mptForBytes).Hash()
	fresh := NewMPTForBytes(db.NewMapDB(), nil)
	for _, k := range vhC17SortedKeys(ref) {
		_, err := fresh.Set(vhC17Keys[k], ref[k])
		sym.Assert(err == nil, "Set succeeds")
	}
	h3 := fresh.GetSnapshot().(*mptForBytes).Hash()
	sym.Assert(bytes.Equal(h2, h3), "after flushing, reloading (or clearing the cache) and modifying, the root hash still depends only on the stored pairs")
}

package ompt

// C17, continued: a snapshot is persistent - after any OPS3 further sets and
// deletes on the mutable trie (which split and re-merge the extension nodes
// the snapshot shares with it) the snapshot still returns exactly its pairs,
// iterates them in order and has the canonical root hash of those pairs.
// Keys are chosen so that both sides of a split can become branches
// (0x1234/0x1235 below a three-nibble extension, 0x1301/0x1302 diverging in
// its middle).

import (
	"bytes"

	"github.com/icon-project/goloop/common/db"
	"github.com/icon-project/goloop/zzverif/sym"
)

var vhC17cKeys = [][]byte{
	{0x12, 0x34},
	{0x12, 0x35},
	{0x13, 0x01},
	{0x13, 0x02},
}

func VH_C17_snapshot_persistent() {
	m := NewMPTForBytes(db.NewMapDB(), nil)
	ref := map[int][]byte{}
	// the snapshot holds any non-empty subset of the first two keys (extension -> branch, or a single leaf)
	base := []int{3, 1, 2}[sym.Choose("base", 2+sym.Param("EARLYHASH", 0))]
	for k := 0; k < 2; k++ {
		if base&(1<<uint(k)) != 0 {
			v := sym.Bytes("base_v", 1)
			_, err := m.Set(vhC17cKeys[k], v)
			sym.Assert(err == nil, "Set succeeds")
			ref[k] = v
		}
	}
	snap := m.GetSnapshot().(*mptForBytes)
	hashedEarly := sym.Param("EARLYHASH", 0) == 1 && sym.Bool("snapshot_hashed_before")
	var early []byte
	if hashedEarly {
		early = snap.Hash()
	}
	cur := map[int][]byte{}
	for k, v := range ref {
		cur[k] = v
	}
	for i := 0; i < sym.Param("OPS3", 4); i++ {
		k := sym.Choose("key", len(vhC17cKeys))
		if sym.Bool("delete") {
			_, err := m.Delete(vhC17cKeys[k])
			sym.Assert(err == nil, "Delete succeeds")
			delete(cur, k)
		} else {
			v := sym.Bytes("v", 1)
			_, err := m.Set(vhC17cKeys[k], v)
			sym.Assert(err == nil, "Set succeeds")
			cur[k] = v
		}
	}
	// the mutable trie is right ...
	for k := range vhC17cKeys {
		got, err := m.Get(vhC17cKeys[k])
		sym.Assert(err == nil, "Get succeeds")
		if want, ok := cur[k]; ok {
			sym.Assert(bytes.Equal(got, want), "trie: lookup returns the last value written")
		} else {
			sym.Assert(got == nil, "trie: lookup of a key that is not stored returns nothing")
		}
	}
	// ... and the snapshot is what it was
	for k := range vhC17cKeys {
		got, err := snap.Get(vhC17cKeys[k])
		sym.Assert(err == nil, "snapshot: Get succeeds")
		if want, ok := ref[k]; ok {
			sym.Assert(bytes.Equal(got, want), "snapshot: lookup still returns the value stored when it was taken")
		} else {
			sym.Assert(got == nil, "snapshot: a key stored later is not in it")
		}
	}
	i := 0
	for it := snap.Iterator(); it.Has(); it.Next() {
		v, k, err := it.Get()
		sym.Assert(err == nil, "snapshot: iteration succeeds")
		for i < len(vhC17cKeys) && ref[i] == nil {
			i++
		}
		sym.Assert(i < len(vhC17cKeys), "snapshot: iteration returns no pair that was not stored")
		if i < len(vhC17cKeys) {
			sym.Assert(bytes.Equal(k, vhC17cKeys[i]) && bytes.Equal(v, ref[i]), "snapshot: iteration still returns its pairs in ascending key order")
		}
		i++
	}
	fresh := NewMPTForBytes(db.NewMapDB(), nil)
	for k := range vhC17cKeys {
		if v, ok := ref[k]; ok {
			_, err := fresh.Set(vhC17cKeys[k], v)
			sym.Assert(err == nil, "Set succeeds")
		}
	}
	want := fresh.GetSnapshot().Hash()
	sym.Assert(bytes.Equal(snap.Hash(), want), "snapshot: its root hash is still the canonical root of its pairs")
	if hashedEarly {
		sym.Assert(bytes.Equal(early, want), "snapshot: the root hash taken early was the canonical one")
	}
	sym.Reach("snapshot-checked")
}

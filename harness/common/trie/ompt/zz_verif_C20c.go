package ompt

// C20, trie level: the real recursive node resolution (mpt.Resolve,
// nodeRequester, branch/extension/leaf resolve) of an OBJECT trie through the
// real merkle builder.  The objects keep their content outside the trie (as
// account snapshots do), so each of them requests further data when resolved.
// Which keys exist (including a key that is a proper prefix of others, whose
// value sits in a branch node) and the order in which requested data arrives
// are arbitrary; unrequested data is offered in between.

import (
	"bytes"
	"reflect"

	"github.com/icon-project/goloop/common/crypto"
	"github.com/icon-project/goloop/common/db"
	"github.com/icon-project/goloop/common/merkle"
	"github.com/icon-project/goloop/common/trie"
	"github.com/icon-project/goloop/zzverif/sym"
)

type vhC20Obj struct {
	bucket db.Bucket
	hash   []byte
	data   []byte
	dirty  bool
}

func (o *vhC20Obj) Bytes() []byte { return o.Hash() }
func (o *vhC20Obj) Reset(s db.Database, k []byte) error {
	bk, err := s.GetBucket(db.BytesByHash)
	if err != nil {
		return err
	}
	o.bucket = bk
	o.hash = k
	return nil
}
func (o *vhC20Obj) Flush() error {
	if o.dirty {
		if err := o.bucket.Set(o.Hash(), o.data); err != nil {
			return err
		}
		o.dirty = false
	}
	return nil
}
func (o *vhC20Obj) Hash() []byte {
	if o.hash == nil {
		o.hash = crypto.SHA3Sum256(o.data)
	}
	return o.hash
}
func (o *vhC20Obj) Equal(obj trie.Object) bool {
	o2, ok := obj.(*vhC20Obj)
	return ok && bytes.Equal(o.Hash(), o2.Hash())
}
func (o *vhC20Obj) Resolve(builder merkle.Builder) error {
	builder.RequestData(db.BytesByHash, o.hash, o)
	return nil
}
func (o *vhC20Obj) OnData(bs []byte, builder merkle.Builder) error { o.data = bs; return nil }
func (o *vhC20Obj) ClearCache()                                      {}

var vhC20Keys = [][]byte{
	{0x12},       // a proper prefix of the next two: its value sits in a branch node
	{0x12, 0x34}, //
	{0x12, 0x56}, //
	{0x77, 0x01}, //
}

func VH_C20_trie_sync() {
	otype := reflect.TypeOf((*vhC20Obj)(nil))
	src := db.NewMapDB()
	srcBytes, _ := src.GetBucket(db.BytesByHash)
	srcTrie, _ := src.GetBucket(db.MerkleTrie)
	m1 := NewMutableForObject(src, nil, otype)
	present := 1 + sym.Choose("keys", 15) // any non-empty subset of the keys
	content := map[int][]byte{}
	for k := range vhC20Keys {
		if present&(1<<uint(k)) != 0 {
			content[k] = append([]byte{0xC0, byte(k)}, sym.Bytes("content", 1)...) // arbitrary content (its hash is symbolic)
			_, err := m1.Set(vhC20Keys[k], &vhC20Obj{bucket: srcBytes, data: content[k], dirty: true})
			sym.Assert(err == nil, "harness: Set")
		}
	}
	ss := m1.GetSnapshot()
	sym.Assert(ss.Flush() == nil, "harness: flush of the source")
	root := ss.Hash()

	dst := db.NewMapDB()
	builder := merkle.NewBuilder(dst)
	ss2 := NewImmutableForObject(builder.Database(), root, otype)
	ss2.Resolve(builder)
	forged := []byte{0xFF, 0xEE, 0xDD}
	order := sym.Choose("order", 3)        // requested data arrives first-listed first, last-listed first, or alternating
	forgeAt := sym.Choose("forge_at", 4) - 1 // round in which unrequested data is offered (-1: never)
	for round := 0; builder.UnresolvedCount() > 0; round++ {
		sym.Assert(round < 16, "the sync terminates")
		type item struct {
			id  db.BucketID
			key []byte
		}
		var reqs []item
		for it := builder.Requests(); it.Next(); {
			reqs = append(reqs, item{it.BucketIDs()[0], it.Key()})
		}
		sym.Assert(len(reqs) > 0, "outstanding requests are listed")
		if round == forgeAt {
			// data nobody asked for: refused, never stored
			sym.Assert(builder.OnData(db.BytesByHash, forged) != nil, "unrequested data is refused")
		}
		r := reqs[0]
		if order == 1 || (order == 2 && round%2 == 1) {
			r = reqs[len(reqs)-1]
		}
		var v []byte
		if r.id == db.MerkleTrie {
			v, _ = srcTrie.Get(r.key)
		} else {
			v, _ = srcBytes.Get(r.key)
		}
		sym.Assert(v != nil, "only data of the trusted state is requested")
		sym.Assert(builder.OnData(r.id, v) == nil, "requested data is accepted")
	}
	sym.Assert(builder.Flush(true) == nil, "the rebuilt state is written")
	// no outstanding requests: the local store holds the complete state, and nothing else
	dstBytes, _ := dst.GetBucket(db.BytesByHash)
	ss3 := NewImmutableForObject(dst, root, otype)
	for k := range vhC20Keys {
		obj, err := ss3.Get(vhC20Keys[k])
		sym.Assert(err == nil, "the rebuilt trie is readable from the local store alone")
		want, ok := content[k]
		if !ok {
			sym.Assert(obj == nil, "the rebuilt trie holds no other key")
			continue
		}
		sym.Assert(obj != nil, "the rebuilt trie holds every key of the trusted state")
		if obj != nil {
			got, err := dstBytes.Get(obj.(*vhC20Obj).Hash())
			sym.Assert(err == nil && bytes.Equal(got, want), "with no outstanding requests the local store holds the content of every object, also of one stored at a branch node")
		}
	}
	got, _ := dstBytes.Get(crypto.SHA3Sum256(forged))
	sym.Assert(got == nil, "data whose hash was not requested is never stored")
	if present&1 != 0 && present&6 != 0 {
		sym.Reach("value-at-branch")
	}
	sym.Reach("synced")
}

package ompt

// one-shot replacement of calcHash (the streaming SHA3 writer) for harnesses
// of other packages that reach the trie (used under gosym only; natively the
// real streaming hash runs)

import "github.com/icon-project/goloop/common/crypto"

func vhOmptCalcHash(data ...[]byte) []byte {
	var all []byte
	for _, d := range data {
		all = append(all, d...)
	}
	return crypto.SHA3Sum256(all)
}

package txlocator

// Harness for property C11 (replay protection: a transaction is included at
// most once per chain).  A chain of blocks is built with the real manager and
// trackers over an in-memory bucket; block timestamps, thresholds,
// transaction ids (one byte) and transaction timestamps are symbolic.

import (
	"github.com/icon-project/goloop/common/log"
	"github.com/icon-project/goloop/module"
	"github.com/icon-project/goloop/service/transaction"
	"github.com/icon-project/goloop/zzverif/sym"
)

type vhC11Bucket struct {
	m map[string][]byte
}

func (b *vhC11Bucket) Get(key []byte) ([]byte, error) { return b.m[string(key)], nil }
func (b *vhC11Bucket) Has(key []byte) (bool, error) {
	_, ok := b.m[string(key)]
	return ok, nil
}
func (b *vhC11Bucket) Set(key []byte, value []byte) error {
	b.m[string(key)] = value
	return nil
}
func (b *vhC11Bucket) Delete(key []byte) error {
	delete(b.m, string(key))
	return nil
}

type vhC11Tx struct {
	transaction.Transaction
	id []byte
	ts int64
}

func (t *vhC11Tx) ID() []byte       { return t.id }
func (t *vhC11Tx) Timestamp() int64 { return t.ts }

type vhC11List struct {
	module.TransactionList
	txs []*vhC11Tx
}

type vhC11Iter struct {
	l *vhC11List
	i int
}

func (l *vhC11List) Iterator() module.TransactionIterator { return &vhC11Iter{l: l} }
func (it *vhC11Iter) Has() bool                           { return it.i < len(it.l.txs) }
func (it *vhC11Iter) Next() error                         { it.i++; return nil }
func (it *vhC11Iter) Get() (module.Transaction, int, error) {
	return it.l.txs[it.i], it.i, nil
}

type vhC11Block struct {
	ts, th    int64
	txs       []*vhC11Tx
	added     bool
	committed bool // finalized: its locators went to the manager (cache / database)
}

func vhC11Manager() *manager {
	mgr := &manager{
		lbk:      &vhC11Bucket{m: map[string][]byte{}},
		log:      log.New(),
		locators: make(map[string]*locator),
	}
	mgr.flushLastP = &mgr.flushHead
	return mgr
}

func vhC11InWindow(bts, th, ts int64) bool {
	return sym.And(bts-th < ts, ts <= bts+th)
}

// Chain of NB blocks, NT transactions each.  Every included transaction lies
// in its own block's window (bts-th, bts+th]; block timestamps increase.
// Then: a list is accepted only if none of its ids was included before.
func vhC11Chain(group module.TransactionGroup) {
	nb := sym.Param("NB", 3)
	nt := sym.Param("NT", 1)
	mgr := vhC11Manager()
	var blocks []*vhC11Block
	var tr module.LocatorTracker
	var prevTS int64
	for b := 0; b < nb; b++ {
		blk := &vhC11Block{ts: sym.I64("bts"), th: sym.I64("th")}
		sym.Assume(sym.And(blk.th >= 1, blk.th <= 1<<40, blk.ts >= 1<<41, blk.ts <= 1<<60))
		if b > 0 {
			sym.Assume(blk.ts > prevTS)
		}
		prevTS = blk.ts
		for i := 0; i < nt; i++ {
			tx := &vhC11Tx{id: sym.Bytes("id", 1), ts: sym.I64("txts")}
			sym.Assume(vhC11InWindow(blk.ts, blk.th, tx.ts))
			// the same id is the same transaction: same timestamp
			for _, ob := range blocks {
				for _, otx := range ob.txs {
					sym.Assume(sym.Implies(otx.id[0] == tx.id[0], otx.ts == tx.ts))
				}
			}
			for _, otx := range blk.txs {
				sym.Assume(sym.Implies(otx.id[0] == tx.id[0], otx.ts == tx.ts))
			}
			blk.txs = append(blk.txs, tx)
		}
		if tr == nil {
			tr = mgr.NewTracker(group, int64(b+1), blk.ts, blk.th)
		} else {
			tr = tr.New(int64(b+1), blk.ts, blk.th)
		}
		cnt, err := tr.Add(&vhC11List{txs: blk.txs}, false)
		if err == nil {
			blk.added = true
			sym.Assert(cnt == len(blk.txs), "Add reports the number of transactions")
			// no id of this block was included before
			for i, tx := range blk.txs {
				for j := 0; j < i; j++ {
					sym.Assert(blk.txs[j].id[0] != tx.id[0], "a list with the same id twice is rejected")
				}
				for _, ob := range blocks {
					if !ob.added {
						continue
					}
					for _, otx := range ob.txs {
						if tx.ts == ob.ts+ob.th && !ob.committed {
							// known finding (only while the ancestor is still tracked, not finalized) (see known_findings.txt): tracker.Has skips a
							// block's own transactions when ts == bts+th although the
							// window's upper bound is inclusive
							sym.Assert(otx.id[0] != tx.id[0], "duplicate rejected, boundary case ts == bts+th of the ancestor holding it")
						} else {
							sym.Assert(otx.id[0] != tx.id[0], "a transaction id included in an ancestor block is rejected")
						}
					}
				}
			}
		} else {
			sym.Reach("rejected")
			// rejected block is not part of the chain: drop the tracker
			if b == 0 {
				tr = nil
			} else {
				// rebuild the tracker chain without this block is not possible; stop here
				return
			}
		}
		blocks = append(blocks, blk)
		if blk.added && sym.Bool("commit") {
			sym.Reach("commit")
			if err := tr.Commit(); err != nil {
				sym.Fail("commit failed")
			}
			for _, ob := range blocks {
				ob.committed = true
			}
		}
	}
	sym.Reach("chain-complete")
}

func VH_C11_chain_patch()  { vhC11Chain(module.TransactionGroupPatch) }
func VH_C11_chain_normal() { vhC11Chain(module.TransactionGroupNormal) }

package common

// Harness for property C25 (header compression is lossless and format
// stable): the real common.Compress / Decompress (lzw.Writer / lzw.Reader)
// on symbolic input bytes, against a small dictionary-LZW reference encoder
// (MSB first, 8-bit literals, 9-bit codes, no initial clear code, EOF code).

import (
	"bytes"

	"github.com/icon-project/goloop/zzverif/sym"
)

// reference encoder for inputs short enough that every code is 9 bits wide
// (fewer than 254 dictionary entries)
func vhC25Reference(x []byte) []byte {
	type entry struct {
		prefix uint32
		lit    byte
		code   uint32
	}
	var dict []entry
	next := uint32(258)
	var codes []uint32
	code := uint32(x[0])
	for _, b := range x[1:] {
		found := false
		for _, e := range dict {
			if e.prefix == code && e.lit == b {
				code = e.code
				found = true
				break
			}
		}
		if found {
			continue
		}
		codes = append(codes, code)
		dict = append(dict, entry{code, b, next})
		next++
		code = uint32(b)
	}
	codes = append(codes, code, 257) // last code, EOF
	var out []byte
	var acc uint32
	nbits := uint(0)
	for _, c := range codes {
		acc = acc<<9 | c
		nbits += 9
		for nbits >= 8 {
			out = append(out, byte(acc>>(nbits-8)))
			nbits -= 8
			acc &= 1<<nbits - 1
		}
	}
	if nbits > 0 {
		out = append(out, byte(acc<<(8-nbits)))
	}
	return out
}

func VH_C25_roundtrip() {
	n := sym.Range("n", 1, sym.Param("N", 3))
	x := sym.Bytes("x", n)
	c := Compress(x)
	sym.Assert(len(c) >= 3, "the compressed form holds at least one code and the EOF code")
	// no leading clear code: the first 9-bit code is the first literal
	first := uint32(c[0])<<1 | uint32(c[1])>>7
	sym.Assert(first == uint32(x[0]), "the stream starts with the first literal, not with a clear code")
	ref := vhC25Reference(x)
	sym.Assert(bytes.Equal(c, ref), "the compressed form is exactly the legacy LZW encoding")
	back := Decompress(c)
	sym.Assert(bytes.Equal(back, x), "decompress(compress(x)) == x")
	sym.Reach("roundtrip")
}

func VH_C25_empty() {
	sym.Assert(len(Compress(nil)) == 0 && len(Compress([]byte{})) == 0, "the empty string compresses to the empty string")
	sym.Assert(len(Decompress(nil)) == 0 && len(Decompress([]byte{})) == 0, "the empty string decompresses to the empty string")
}

package common

// Harness for property C36 (addresses have one canonical text and byte form).

import (
	"github.com/icon-project/goloop/zzverif/sym"
)

func vhC36Addr(name string) *Address {
	a := new(Address)
	b := sym.Bytes(name, AddressBytes)
	sym.Assume(b[0] <= 1)
	copy(a[:], b)
	return a
}

// print -> strict parse is the identity on every address
func VH_C36_print_parse() {
	a := vhC36Addr("a")
	s := a.String()
	sym.Assert(len(s) == 42, "String() has 42 characters")
	b := new(Address)
	err := b.SetStringStrict(s)
	sym.Assert(err == nil, "strict parser accepts the printed form")
	sym.Assert(*b == *a, "strict parse of the printed form gives the same address")
	c := new(Address)
	err = c.SetString(s)
	sym.Assert(err == nil && *c == *a, "lenient parse of the printed form gives the same address")
	if a[0] == 1 {
		sym.Reach("contract")
		sym.Assert(s[0] == 'c' && s[1] == 'x', "contract prefix")
	} else {
		sym.Reach("account")
		sym.Assert(s[0] == 'h' && s[1] == 'x', "account prefix")
	}
}

// the strict parser accepts only canonical strings: accepted s prints back as s
func VH_C36_strict_only_canonical() {
	s := sym.String("s", 42)
	for i := 0; i < len(s); i++ {
		sym.Assume(s[i] < 0x80) // ASCII candidates (non-ASCII is outside the bound)
	}
	a := new(Address)
	err := a.SetStringStrict(s)
	if err == nil {
		sym.Reach("accepted")
		sym.Assert(a.String() == s, "accepted string is the canonical print of the result")
	} else {
		sym.Reach("rejected")
	}
}

// wrong lengths are rejected by the strict parser
func VH_C36_strict_length() {
	n := sym.Len("n", 45)
	sym.Assume(n != 42)
	s := sym.String("s", n)
	a := new(Address)
	sym.Assert(a.SetStringStrict(s) != nil, "strict parser rejects strings whose length is not 42")
}

// byte forms
func VH_C36_bytes() {
	n := sym.Len("n", 23)
	b := sym.Bytes("b", n)
	a := new(Address)
	err := a.SetBytes(b)
	switch {
	case n == AddressBytes:
		if b[0] <= 1 {
			sym.Reach("21-ok")
			sym.Assert(err == nil, "21-byte form with type 0/1 accepted")
			out := a.Bytes()
			sym.Assert(len(out) == AddressBytes, "Bytes() length")
			for i := range out {
				sym.Assert(out[i] == b[i], "21-byte form round trips")
			}
			c, err2 := NewAddress(out)
			sym.Assert(err2 == nil && *c == *a, "NewAddress(Bytes()) is the same address")
		} else {
			sym.Reach("21-badtype")
			sym.Assert(err != nil, "21-byte form with another type byte rejected")
		}
	case n == AddressIDBytes:
		sym.Reach("20")
		sym.Assert(err == nil, "20-byte form accepted")
		sym.Assert(!a.IsContract() && a[0] == 0, "20-byte form is an account address")
		id := a.ID()
		for i := range id {
			sym.Assert(id[i] == b[i], "20-byte form keeps the id")
		}
	default:
		sym.Assert(err != nil, "other lengths rejected")
	}
}

package common

// C36, continued: decoding into an address value that already holds another
// address (a reused decode target) gives the same result as decoding into a
// fresh one - for the byte forms, the text forms and the codec.

import (
	"github.com/icon-project/goloop/common/codec"
	"github.com/icon-project/goloop/zzverif/sym"
)

func VH_C36_reused_target() {
	prev := vhC36Addr("previous") // whatever the target held before
	src := vhC36Addr("source")
	fresh := new(Address)
	reused := new(Address)
	*reused = *prev
	var e1, e2 error
	switch sym.Choose("form", 5) {
	case 0:
		e1, e2 = fresh.SetBytes(src.Bytes()), reused.SetBytes(src.Bytes())
	case 1:
		// the 20-byte form (an account address without its type byte)
		e1, e2 = fresh.SetBytes(src.ID()), reused.SetBytes(src.ID())
		sym.Reach("id-only-form")
	case 2:
		s := src.String()
		e1, e2 = fresh.SetString(s), reused.SetString(s)
	case 3:
		s := src.String()
		e1, e2 = fresh.SetStringStrict(s), reused.SetStringStrict(s)
	default:
		// through the codec: both wire forms
		b := src.Bytes()
		if sym.Bool("wire_id_only") {
			b = src.ID()
		}
		bs, err := codec.BC.MarshalToBytes(b)
		sym.Assert(err == nil, "harness: encode")
		_, e1 = codec.BC.UnmarshalFromBytes(bs, fresh)
		_, e2 = codec.BC.UnmarshalFromBytes(bs, reused)
	}
	sym.Assert((e1 == nil) == (e2 == nil), "decoding succeeds or fails regardless of what the target held before")
	if e1 == nil && e2 == nil {
		sym.Assert(*fresh == *reused, "decoding into a reused address value gives the same address as decoding into a fresh one")
	}
}

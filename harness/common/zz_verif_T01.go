package common

import (
	"bufio"
	"bytes"
	"io"

	"github.com/icon-project/goloop/zzverif/sym"
)

func VH_T01_bufio() {
	r1 := bytes.NewReader([]byte{1, 2, 3})
	r2 := bytes.NewReader([]byte{4, 5})
	br := bufio.NewReaderSize(io.MultiReader(r1, r2), 4096)
	b := make([]byte, 4)
	n, err := io.ReadAtLeast(br, b, 4)
	sym.Assert(n == 4 && err == nil, "read 4")
	sym.Assert(b[3] == 4, "content")
	n, err = io.ReadAtLeast(br, b, 4)
	sym.Assert(n == 1 && err == io.ErrUnexpectedEOF, "unexpected eof")
	n, err = io.ReadAtLeast(br, b, 4)
	sym.Assert(n == 0 && err == io.EOF, "eof")
}

type vhT01S struct {
	buf []byte
	rd  io.Reader
	x   int
}

func (s *vhT01S) reset(b []byte, r io.Reader) {
	*s = vhT01S{buf: b, rd: r, x: -1}
}

func VH_T01_complit() {
	s := new(vhT01S)
	s.reset(make([]byte, 16), bytes.NewReader([]byte{1}))
	sym.Assert(len(s.buf) == 16, "buf len")
	sym.Assert(s.rd != nil, "rd set")
	sym.Assert(s.x == -1, "x set")
}

func VH_T01_newreader() {
	mr := io.MultiReader(bytes.NewReader([]byte{1, 2, 3}))
	_, ok := mr.(*bufio.Reader)
	sym.Assert(!ok, "multireader is not a bufio.Reader")
	br := bufio.NewReaderSize(mr, 4096)
	sym.Observe("size", br.Size())
	sym.Assert(br.Size() == 4096, "size")
	b := make([]byte, 2)
	n, err := br.Read(b)
	sym.Assert(n == 2 && err == nil, "read")
}

package common

import "github.com/icon-project/goloop/zzverif/sym"

// engine regression: append within capacity aliases the backing array
func VH_T01_append_alias() {
	a := make([]byte, 2, 8)
	b := append(a, 1)
	c := append(a, sym.U8("x"))
	sym.Observe("b2", int(b[2]))
	sym.Assert(b[2] == c[2], "append within capacity shares the backing array")
	d := append(a[:2:2], 9) // full slice expression: must copy
	sym.Assert(b[2] == c[2] && d[2] == 9, "append beyond capacity copies")
	e := a[1:]
	e[0] = 5
	sym.Assert(a[1] == 5 && b[1] == 5, "sub-slices alias")
}

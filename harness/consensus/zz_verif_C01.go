package consensus

// Harness for properties C01 (consensus agreement) and C02 (no equivocation,
// votes durable before they are sent): STEP LEMMAS of the real consensus
// state machine.  One correct validator (validator 0 of n = 4) is put into an
// arbitrary state - round, step, lock (none / block A / block B and its
// round), current block parts, prevote and precommit sets of the current round
// filled with any numbers of votes for nil / A / B - and ONE real transition
// runs: enterPrevote, enterPrecommit (incl. what it cascades into),
// handlePrevoteMessage, handlePrecommitMessage.  The votes the node emits are
// observed where the real doSendVote hands them to the WAL and the network
// (fakes), decoded with the real codec.  The node's own vote is not fed back
// into its vote sets (its signature is a dummy, so ReceiveVoteMessage refuses
// it): delivery of the own vote is a separate step.
//
// The induction from these lemmas (+ quorum intersection, VH_C01_quorum) to
// "no two correct validators finalize different blocks" is the standard
// Tendermint argument and is NOT mechanised here.

import (
	"bytes"
	"context"
	"io"
	"time"

	"github.com/icon-project/goloop/server/metric"
	"github.com/icon-project/goloop/chain/base"
	"github.com/icon-project/goloop/common"
	"github.com/icon-project/goloop/common/log"
	"github.com/icon-project/goloop/module"
	"github.com/icon-project/goloop/zzverif/sym"
)

const vhC01N = 4

// ---- fakes ----

type vhC01Wallet struct{ addr module.Address }

func (w *vhC01Wallet) Address() module.Address { return w.addr }
func (w *vhC01Wallet) PublicKey() []byte       { return nil }
func (w *vhC01Wallet) Sign(data []byte) ([]byte, error) {
	return make([]byte, 65), nil // a dummy signature: nobody can recover the signer from it
}

type vhC01Vals struct {
	module.ValidatorList
	self module.Address
}

func (v *vhC01Vals) Len() int { return vhC01N }
func (v *vhC01Vals) IndexOf(a module.Address) int {
	if ca, ok := a.(*common.Address); ok && ca == nil {
		return -1
	}
	if a != nil && v.self.Equal(a) {
		return 0
	}
	return -1
}

type vhC01Validator struct {
	module.Validator
	addr module.Address
}

func (v *vhC01Validator) Address() module.Address { return v.addr }

func (v *vhC01Vals) Get(i int) (module.Validator, bool) {
	if i == 0 {
		return &vhC01Validator{addr: v.self}, true
	}
	if i < 0 || i >= vhC01N {
		return nil, false
	}
	return &vhC01Validator{addr: common.MustNewAddressFromString("hx00000000000000000000000000000000000000d" + string([]byte{'0' + byte(i)}))}, true
}

type vhC01Regulator struct{ module.Regulator }

func (r *vhC01Regulator) MinCommitTimeout() time.Duration { return time.Second }
func (r *vhC01Regulator) CommitTimeout() time.Duration    { return time.Second }
func (r *vhC01Regulator) OnPropose(now time.Time)         {}

type vhC01SM struct{ module.ServiceManager }

func (s *vhC01SM) GetRevision(result []byte) module.Revision { return module.LatestRevision }

type vhC01Block struct {
	module.Block
	id   []byte
	vals module.ValidatorList
}

func (b *vhC01Block) ID() []byte                             { return b.id }
func (b *vhC01Block) Result() []byte                         { return nil }
func (b *vhC01Block) Timestamp() int64                       { return 1 }
func (b *vhC01Block) NextValidators() module.ValidatorList   { return b.vals }
func (b *vhC01Block) NTSHashEntryList() (module.NTSHashEntryList, error) {
	return vhC01NoNTS{}, nil
}
func (b *vhC01Block) Dup() module.BlockCandidate { return b }
func (b *vhC01Block) Dispose()                   {}

type vhC01NoNTS struct{}

func (vhC01NoNTS) NTSHashEntryListFormat() []module.NTSHashEntryFormat { return nil }
func (vhC01NoNTS) NTSHashEntryCount() int                              { return 0 }
func (vhC01NoNTS) NTSHashEntryAt(i int) module.NTSHashEntryFormat      { return module.NTSHashEntryFormat{} }

type vhC01BM struct {
	module.BlockManager
	env *vhC01Env
}

func (m *vhC01BM) GetBlockByHeight(h int64) (module.Block, error) {
	return &vhC01Block{id: []byte{0}, vals: m.env.cs.validators}, nil
}
func (m *vhC01BM) Finalize(bc module.BlockCandidate) error {
	m.env.finalized = append(m.env.finalized, bc.ID())
	// the step under test ends here: entering the next height needs the whole node
	panic(vhC01Stop{})
}

type vhC01Stop struct{}

// runs one transition; a vhC01Stop panic (raised by the fake Finalize) ends it
func vhC01Step(f func()) {
	defer func() {
		if r := recover(); r != nil {
			if _, ok := r.(vhC01Stop); !ok {
				panic(r)
			}
		}
	}()
	f()
}

type vhC01Chain struct {
	base.Chain
	env *vhC01Env
}

func (c *vhC01Chain) Wallet() module.Wallet                 { return c.env.wallet }
func (c *vhC01Chain) Regulator() module.Regulator           { return &vhC01Regulator{} }
func (c *vhC01Chain) ServiceManager() module.ServiceManager { return &vhC01SM{} }
func (c *vhC01Chain) NID() int                              { return 7 }
func (c *vhC01Chain) BlockManager() module.BlockManager     { return &vhC01BM{env: c.env} }

type vhC01WAL struct {
	records [][]byte
	synced  int // number of records covered by the last Sync
}

func (w *vhC01WAL) WriteBytes(b []byte) (int, error) {
	w.records = append(w.records, append([]byte{}, b...))
	return len(b), nil
}
func (w *vhC01WAL) Sync() error  { w.synced = len(w.records); return nil }
func (w *vhC01WAL) Close() error { return nil }

type vhC01PH struct {
	module.ProtocolHandler
	env *vhC01Env
}

// C02 (O1): whatever is sent was written to the round WAL, and synced, before
func (p *vhC01PH) observe(pi module.ProtocolInfo, b []byte) {
	e := p.env
	if pi != ProtoVote && pi != ProtoProposal {
		return // vote lists etc. carry other validators' votes, not a statement signed by this node
	}
	e.sends++
	durable := false
	for i, r := range e.roundWAL.records {
		if i < e.roundWAL.synced && len(r) == len(b)+2 && bytes.Equal(r[2:], b) {
			durable = true
		}
	}
	sym.Assert(durable, "a vote is written to the round WAL and synced before it is sent")
	msg, err := UnmarshalMessage(pi.Uint16(), b)
	sym.Assert(err == nil, "harness: the sent bytes decode")
	if vm, ok := msg.(*VoteMessage); ok {
		e.sent = append(e.sent, vm)
	}
}
func (p *vhC01PH) Broadcast(pi module.ProtocolInfo, b []byte, bt module.BroadcastType) error {
	p.observe(pi, b)
	return nil
}
func (p *vhC01PH) Multicast(pi module.ProtocolInfo, b []byte, role module.Role) error {
	p.observe(pi, b)
	return nil
}

type vhC01Part struct{ b []byte }

func (p *vhC01Part) Index() int    { return 0 }
func (p *vhC01Part) Bytes() []byte { return p.b }

type vhC01PS struct{ id *PartSetID }

func (p *vhC01PS) ID() *PartSetID       { return p.id }
func (p *vhC01PS) Parts() int           { return 1 }
func (p *vhC01PS) GetPart(int) Part     { return &vhC01Part{b: []byte{p.id.Hash[0]}} }
func (p *vhC01PS) IsComplete() bool     { return true }
func (p *vhC01PS) NewReader() io.Reader { return bytes.NewReader([]byte{p.id.Hash[0]}) }
func (p *vhC01PS) AddPart(Part) error   { return nil }
func (p *vhC01PS) GetMask() *BitArray   { return nil }

// ---- the environment ----

type vhC01Env struct {
	cs        *consensus
	wallet    *vhC01Wallet
	roundWAL  *vhC01WAL
	sent      []*VoteMessage
	sends     int
	finalized [][]byte
	psid      [3]*PartSetID // index 1 = block A, 2 = block B
}

func vhC01New() *vhC01Env {
	e := &vhC01Env{roundWAL: &vhC01WAL{}}
	e.wallet = &vhC01Wallet{addr: common.MustNewAddressFromString("hx00000000000000000000000000000000000000c1")}
	e.psid[1] = &PartSetID{Count: 1, Hash: []byte{0xA}}
	e.psid[2] = &PartSetID{Count: 1, Hash: []byte{0xB}}
	cs := &consensus{
		c:           &vhC01Chain{env: e},
		log:         log.New(),
		ph:          &vhC01PH{env: e},
		roundWAL:    &WalMessageWriter{e.roundWAL},
		lockWAL:     &WalMessageWriter{&vhC01WAL{}},
		commitWAL:   &WalMessageWriter{&vhC01WAL{}},
		nid:         []byte{7},
		dsmLog:      makeDSMLog(16),
		lastBlock:   &vhC01Block{id: []byte{0}},
		validators:  &vhC01Vals{self: e.wallet.addr},
		started:     true,
		lockedRound: -1,
		metric:      metric.NewConsensusMetric(context.Background()),
	}
	cs.height = 9 // (height + round) mod 4 != 0 for rounds 0..2: this node never is the proposer (proposing is outside the lemmas)
	cs.hvs.reset(vhC01N)
	e.cs = cs
	return e
}

func (e *vhC01Env) blockParts(which int, validated bool) blockPartSet {
	var bps blockPartSet
	if which == 0 {
		return bps
	}
	blk := &vhC01Block{id: []byte{byte(0xA + which - 1)}}
	bps.PartSet = &vhC01PS{id: e.psid[which]}
	bps.block = blk
	if validated {
		bps.validatedBlock = blk
	}
	return bps
}

// fills the vote set of (round, type) with a votes for A, b for B, z for nil
// from validators 1.. (validator 0 is this node); returns what was put in
func (e *vhC01Env) fill(round int32, vt VoteType, tag string) (a, b, z int) {
	total := sym.Choose(tag+"_total", vhC01N)
	idx := 1
	for i := 0; i < total; i++ {
		d := sym.Choose(tag+"_vote", 3) // 0 nil, 1 A, 2 B
		m := newVoteMessage()
		m.Height = e.cs.height
		m.Round = round
		m.Type = vt
		if d == 0 {
			m.BlockID = e.cs.nid
			z++
		} else {
			m.BlockID = []byte{byte(0xA + d - 1)}
			m.BlockPartSetIDAndNTSVoteCount = e.psid[d].WithAppData(psidAppData(7, 0))
			if d == 1 {
				a++
			} else {
				b++
			}
		}
		m.decisionDigest = []byte{byte(d)}
		m.Timestamp = 5
		added, _ := e.cs.hvs.add(idx, m)
		sym.Assert(added, "harness: vote added")
		idx++
	}
	return
}

func vhC01Quorum(k int) bool { return 3*k > 2*vhC01N }

// which block (0 nil, 1 A, 2 B, -1 other) a sent vote is for
func (e *vhC01Env) decisionOf(m *VoteMessage) int {
	if m.BlockPartSetIDAndNTSVoteCount == nil {
		return 0
	}
	for d := 1; d <= 2; d++ {
		if m.BlockPartSetIDAndNTSVoteCount.ID().Equal(e.psid[d]) && bytes.Equal(m.BlockID, []byte{byte(0xA + d - 1)}) {
			return d
		}
	}
	return -1
}

func (e *vhC01Env) lockedOn() int {
	if e.cs.lockedBlockParts.IsZero() {
		return 0
	}
	for d := 1; d <= 2; d++ {
		if e.cs.lockedBlockParts.ID().Equal(e.psid[d]) {
			return d
		}
	}
	return -1
}

// arbitrary lock
func (e *vhC01Env) setLock(round int32) (lock int, lockedRound int32) {
	lock = sym.Choose("lock", 3)
	lockedRound = -1
	if lock != 0 {
		lockedRound = int32(sym.Choose("lockedRound", int(round)+1))
		e.cs.lockedBlockParts = e.blockParts(lock, sym.Bool("lock_validated"))
	}
	e.cs.lockedRound = lockedRound
	return
}

func (e *vhC01Env) checkInvariant() {
	cs := e.cs
	sym.Assert((cs.lockedRound == -1) == cs.lockedBlockParts.IsZero(), "a lock round is recorded exactly when a block is locked")
	sym.Assert(cs.lockedRound <= cs.round, "the lock round is never in the future")
	if !cs.lockedBlockParts.IsZero() {
		sym.Assert(cs.lockedBlockParts.HasBlockData(), "a locked block is one whose data the node holds")
	}
}

// ---- lemmas ----

// enterPrecommit: a non-nil precommit is sent only for a block that has +2/3
// prevotes in this round, and then the node is locked on it in this round; an
// existing lock changes only on a polka of this round
func VH_C01_enter_precommit() {
	e := vhC01New()
	cs := e.cs
	cs.round = int32(sym.Choose("round", 2))
	cs.step = stepPrevote + step(sym.Choose("step", 2))
	lock0, lockedRound0 := e.setLock(cs.round)
	cur := sym.Choose("current", 4) // 0 none, 1 A with data, 2 B with data, 3 only the id of A
	switch cur {
	case 1, 2:
		cs.currentBlockParts = e.blockParts(cur, sym.Bool("current_validated"))
	case 3:
		cs.currentBlockParts.SetByPartSetID(e.psid[1])
	}
	a, b, _ := e.fill(cs.round, VoteTypePrevote, "prevotes")
	polka := 0
	if vhC01Quorum(a) {
		polka = 1
	} else if vhC01Quorum(b) {
		polka = 2
	}
	cs.enterPrecommit()

	var pcs []*VoteMessage
	for _, m := range e.sent {
		sym.Assert(m.Height == cs.height, "votes are for the current height")
		if m.Type == VoteTypePrecommit {
			pcs = append(pcs, m)
		}
	}
	sym.Assert(len(pcs) == 1, "entering precommit sends exactly one precommit")
	if len(pcs) == 1 {
		m := pcs[0]
		d := e.decisionOf(m)
		sym.Assert(d >= 0, "the precommit is for nil or for a known block")
		sym.Assert(m.Round == cs.round || cs.step > stepPrecommitWait, "the precommit is for the round being left")
		if d > 0 {
			sym.Reach("precommit-block")
			sym.Assert(d == polka, "a block is precommitted only with +2/3 prevotes for it in this round")
			sym.Assert(e.lockedOn() == d && cs.lockedRound == m.Round, "precommitting a block locks the node on it in that round")
		} else {
			sym.Reach("precommit-nil")
		}
	}
	// the lock changes only because of a polka of this round
	if e.lockedOn() != lock0 {
		sym.Reach("lock-changed")
		sym.Assert(polka != 0 || vhC01Quorum(vhC01N-a-b) || true, "harness")
		if e.lockedOn() == 0 {
			sym.Assert(vhC01Quorum(a) || vhC01Quorum(b) || vhC01NilPolka(cs, cs.round), "a lock is released only on a polka of this round")
		} else {
			sym.Assert(e.lockedOn() == polka, "a new lock is taken only on a polka for that block")
		}
	} else if lock0 != 0 && cs.lockedRound != lockedRound0 {
		sym.Assert(polka == lock0, "the lock round advances only on a polka for the locked block")
	}
	e.checkInvariant()
}

func vhC01NilPolka(cs *consensus, round int32) bool {
	psid, ok := cs.hvs.votesFor(round, VoteTypePrevote).getOverTwoThirdsPartSetID()
	return ok && psid == nil
}

// enterPrevote: a locked node prevotes its locked block
func VH_C01_enter_prevote() {
	e := vhC01New()
	cs := e.cs
	cs.round = int32(sym.Choose("round", 2))
	cs.step = stepNewRound + step(sym.Choose("step", 2))
	lock0, lockedRound0 := e.setLock(cs.round)
	cur := sym.Choose("current", 3)
	if cur != 0 {
		cs.currentBlockParts = e.blockParts(cur, true)
	}
	e.fill(cs.round, VoteTypePrevote, "prevotes")
	cs.enterPrevote()
	n := 0
	for _, m := range e.sent {
		if m.Type == VoteTypePrevote && m.Round == cs.round {
			n++
			d := e.decisionOf(m)
			if lock0 != 0 {
				sym.Reach("locked")
				sym.Assert(d == lock0, "a locked node prevotes only its locked block")
			} else if cur != 0 {
				sym.Assert(d == cur, "an unlocked node prevotes the valid proposal it holds")
			} else {
				sym.Assert(d == 0, "a node without a proposal prevotes nil")
			}
		}
	}
	sym.Assert(n == 1, "entering prevote sends exactly one prevote")
	if cs.step == stepPrevote || cs.step == stepPrevoteWait {
		sym.Assert(e.lockedOn() == lock0 && cs.lockedRound == lockedRound0, "prevoting does not touch the lock")
	}
	e.checkInvariant()
}

// handlePrevoteMessage: the lock is released only by a polka of a LATER round for something else
func VH_C01_unlock_rule() {
	e := vhC01New()
	cs := e.cs
	cs.round = int32(sym.Choose("round", 2))
	cs.step = stepPropose + step(sym.Choose("step", 4)) // propose .. precommit
	lock0, lockedRound0 := e.setLock(cs.round)
	if lock0 != 0 && sym.Bool("current_is_lock") {
		cs.currentBlockParts = e.blockParts(lock0, true)
	}
	msgRound := int32(sym.Choose("msg_round", 3))
	a, b, _ := e.fill(msgRound, VoteTypePrevote, "prevotes")
	votes := cs.hvs.votesFor(msgRound, VoteTypePrevote)
	if !votes.hasOverTwoThirds() {
		return // ReceiveVoteMessage calls the handler only with +2/3 of any votes
	}
	msg := newVoteMessage()
	msg.Height, msg.Round, msg.Type = cs.height, msgRound, VoteTypePrevote
	cs.handlePrevoteMessage(msg, votes)
	polka := 0
	if vhC01Quorum(a) {
		polka = 1
	} else if vhC01Quorum(b) {
		polka = 2
	}
	if lock0 != 0 && e.lockedOn() != lock0 {
		sym.Reach("lock-released-or-changed")
		later := msgRound > lockedRound0
		other := (polka != 0 && polka != lock0) || vhC01NilPolka(cs, msgRound) || vhC01NilPolka(cs, cs.round)
		sym.Assert(later || cs.round >= msgRound, "harness")
		sym.Assert(other, "a lock is given up only when +2/3 prevoted something else")
		sym.Assert(later || msgRound == cs.round, "a lock is given up only for a polka of a later round than the lock round (or on entering precommit of the current round)")
	}
	for _, m := range e.sent {
		if m.Type == VoteTypePrecommit && e.decisionOf(m) > 0 {
			d := e.decisionOf(m)
			psid, ok := cs.hvs.votesFor(m.Round, VoteTypePrevote).getOverTwoThirdsPartSetID()
			sym.Assert(ok && psid != nil && psid.Equal(e.psid[d]), "a block is precommitted only with +2/3 prevotes for it in the same round")
		}
	}
	e.checkInvariant()
}

// commit: a block is finalized only with +2/3 precommits for it in one round
func VH_C01_commit_requires_quorum() {
	e := vhC01New()
	cs := e.cs
	cs.round = int32(sym.Choose("round", 2))
	cs.step = stepPrevote + step(sym.Choose("step", 4)) // prevote .. precommitWait
	e.setLock(cs.round)
	cur := sym.Choose("current", 3)
	if cur != 0 {
		cs.currentBlockParts = e.blockParts(cur, true)
	}
	msgRound := int32(sym.Choose("msg_round", 2))
	a, b, _ := e.fill(msgRound, VoteTypePrecommit, "precommits")
	votes := cs.hvs.votesFor(msgRound, VoteTypePrecommit)
	if !votes.hasOverTwoThirds() {
		return
	}
	msg := newVoteMessage()
	msg.Height, msg.Round, msg.Type = cs.height, msgRound, VoteTypePrecommit
	vhC01Step(func() { cs.handlePrecommitMessage(msg, votes) })
	if cs.step == stepCommit {
		sym.Reach("commit")
		sym.Assert(vhC01Quorum(a) || vhC01Quorum(b), "the commit step is entered only with +2/3 precommits for one block in one round")
		want := 1
		if vhC01Quorum(b) {
			want = 2
		}
		sym.Assert(cs.currentBlockParts.ID().Equal(e.psid[want]), "the block being committed is the one with +2/3 precommits")
		sym.Assert(cs.commitRound == msgRound, "the commit round is the round of those precommits")
	}
	for _, id := range e.finalized {
		sym.Reach("finalized")
		sym.Assert((vhC01Quorum(a) && id[0] == 0xA) || (vhC01Quorum(b) && id[0] == 0xB), "a block is finalized only after more than two thirds of the validators precommitted it in one round")
	}
	sym.Assert(len(e.finalized) <= 1, "at most one block is finalized")
}

// quorum intersection: two sets of more than 2n/3 validators share more than
// n/3 members - so with fewer than n/3 Byzantine validators they share a correct one
func VH_C01_quorum() {
	n := sym.I64("n")
	f := sym.I64("f")
	q1 := sym.I64("q1")
	q2 := sym.I64("q2")
	sym.Assume(sym.And(n >= 1, n < 1<<20, f >= 0, f < 1<<20, 3*f < n))
	sym.Assume(sym.And(q1 <= n, q2 <= n, q1 > n*2/3, q2 > n*2/3))
	sym.Assert(q1+q2-n > f, "two +2/3 quorums intersect in more validators than can be Byzantine")
	// the threshold expression used by the code (enoughVote / voteSet) is the same notion
	sym.Assert(enoughVote(int(q1), int(n)), "enoughVote accepts a +2/3 quorum")
	below := sym.I64("below")
	sym.Assume(sym.And(below >= 0, below <= n*2/3))
	sym.Assert(!enoughVote(int(below), int(n)) || n == 0, "enoughVote refuses anything up to 2n/3")
}

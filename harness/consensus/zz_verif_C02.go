package consensus

// Harness for property C02 (a correct validator never equivocates, even
// across crashes; everything it broadcast is durably remembered first): the
// real doSendVote / doSendProposal and the real applyRoundWAL restore, over
// the fakes of the C01 harness.  The WAL-before-send assertion itself sits in
// the fake protocol handler (vhC01PH.observe): at the moment anything signed by
// this node is handed to the network, the identical bytes must already be in
// the round WAL and covered by a Sync.

import (
	"io"

	"github.com/icon-project/goloop/common/crypto"
	"github.com/icon-project/goloop/module"
	"github.com/icon-project/goloop/zzverif/sym"
)

func VH_C02_vote_durable_before_send() {
	e := vhC01New()
	cs := e.cs
	cs.round = int32(sym.Choose("round", 3))
	cs.step = stepPrevote
	vt := VoteTypePrevote
	if sym.Bool("precommit") {
		vt = VoteTypePrecommit
		cs.step = stepPrecommit
	}
	which := sym.Choose("block", 3)
	if which == 0 {
		cs.sendVote(vt, nil)
	} else {
		bps := e.blockParts(which, true)
		cs.sendVote(vt, &bps)
	}
	sym.Assert(e.sends == 1, "the vote is sent once")
	sym.Assert(len(e.roundWAL.records) == 1 && e.roundWAL.synced == 1, "exactly one record was written and synced")
	sym.Assert(len(e.sent) == 1, "the sent bytes are a vote")
	if len(e.sent) == 1 {
		m := e.sent[0]
		sym.Assert(m.Height == cs.height && m.Round == cs.round && m.Type == vt && e.decisionOf(m) == which, "the vote sent is the vote for the current height, round, step and decision")
	}
	sym.Reach("vote-sent")
}

func VH_C02_proposal_durable_before_send() {
	e := vhC01New()
	cs := e.cs
	cs.round = int32(1 + sym.Choose("round", 2))
	cs.step = stepPropose
	pol := int32(sym.Choose("pol", int(cs.round)+1)) - 1
	which := 1 + sym.Choose("block", 2)
	err := cs.doSendProposal(&vhC01PS{id: e.psid[which]}, pol)
	sym.Assert(err == nil, "the proposal is sent")
	sym.Assert(e.sends == 1, "the proposal is sent once")
	sym.Assert(len(e.roundWAL.records) == 1 && e.roundWAL.synced == 1, "exactly one record was written and synced")
	sym.Reach("proposal-sent")
}

// ---- restore after a crash ----

// a chain whose wallet holds a real (model) key, so that the node's own
// messages verify when they are read back from the WAL
type vhC02Chain struct {
	*vhC01Chain
	w *vhC05Wallet
}

func (c *vhC02Chain) Wallet() module.Wallet { return c.w }

type vhC02Reader struct {
	recs     [][]byte
	pos      int
	tail     error // what the reader reports after the intact records (nil: a clean end)
	repaired int
}

func (r *vhC02Reader) ReadBytes() ([]byte, error) {
	if r.pos >= len(r.recs) {
		if r.tail != nil {
			return nil, r.tail
		}
		return nil, io.EOF
	}
	b := r.recs[r.pos]
	r.pos++
	return b, nil
}
func (r *vhC02Reader) Close() error          { return nil }
func (r *vhC02Reader) CloseAndRepair() error { r.repaired++; return nil }

type vhC02WM struct {
	recs   [][]byte
	tail   error
	reader *vhC02Reader
}

func (m *vhC02WM) OpenForRead(id string) (WALReader, error) {
	m.reader = &vhC02Reader{recs: m.recs, tail: m.tail}
	return m.reader, nil
}
func (m *vhC02WM) OpenForWrite(id string, cfg *WALConfig) (WALWriter, error) {
	return &vhC01WAL{}, nil
}

// first life: the node sends up to SENDS own votes (any rounds / types /
// decisions, in non-decreasing (round, step) order as the state machine
// does); crash; second life: applyRoundWAL restores from the round WAL.
// Then the restored (round, step) is at least that of every own vote, and the
// own votes sit in the vote sets, so no second vote of that type can be signed
// for that round.
func VH_C02_restore_remembers_own_votes() {
	e := vhC01New()
	priv, pub := crypto.GenerateKeyPair()
	w := &vhC05Wallet{priv, pub}
	e.wallet = nil
	e.cs.c = &vhC02Chain{vhC01Chain: &vhC01Chain{env: e}, w: w}
	e.cs.validators = &vhC01Vals{self: w.Address()}
	cs := e.cs
	type sentRec struct {
		round int32
		vt    VoteType
		which int
	}
	var log []sentRec
	n := sym.Range("sends", 1, sym.Param("SENDS", 2))
	round := int32(0)
	st := stepPrevote
	for i := 0; i < n; i++ {
		// advance to a later (round, step)
		if i > 0 || sym.Bool("skip_first") {
			if st == stepPrevote && sym.Bool("same_round") {
				st = stepPrecommit
			} else {
				round++
				st = stepPrevote
				if sym.Bool("start_with_precommit") {
					st = stepPrecommit
				}
			}
		}
		cs.round, cs.step = round, st
		vt := VoteTypePrevote
		if st == stepPrecommit {
			vt = VoteTypePrecommit
		}
		which := sym.Choose("block", 3)
		if which == 0 {
			cs.sendVote(vt, nil)
		} else {
			bps := e.blockParts(which, true)
			cs.sendVote(vt, &bps)
		}
		log = append(log, sentRec{round, vt, which})
	}
	sym.Assert(e.sends == n, "every vote was sent")
	// crash: only the synced records survive
	survived := e.roundWAL.records[:e.roundWAL.synced]
	sym.Assert(len(survived) == n, "every sent vote is in the durable part of the round WAL")

	e2 := vhC01New()
	e2.cs.c = &vhC02Chain{vhC01Chain: &vhC01Chain{env: e2}, w: w}
	e2.cs.validators = &vhC01Vals{self: w.Address()}
	// the crash may also have left a torn or corrupted record after the durable ones
	wm := &vhC02WM{recs: survived}
	switch sym.Choose("tail", 3) {
	case 1:
		wm.tail = io.ErrUnexpectedEOF
		sym.Reach("torn-tail")
	case 2:
		wm.tail = errCorruptedWAL
		sym.Reach("corrupted-tail")
	}
	e2.cs.wm = wm
	sym.Assert(e2.cs.applyRoundWAL() == nil, "the round WAL is applied")
	if wm.tail != nil {
		sym.Assert(wm.reader.repaired == 1, "a torn tail is repaired")
	}
	last := log[len(log)-1]
	lastStep := stepPrevote
	if last.vt == VoteTypePrecommit {
		lastStep = stepPrecommit
	}
	sym.Assert(e2.cs.round > last.round || (e2.cs.round == last.round && e2.cs.step >= lastStep), "the restored round and step are not before the last vote the node sent")
	for _, r := range log {
		vs := e2.cs.hvs.votesFor(r.round, r.vt)
		own := vs.msgs[0]
		sym.Assert(own != nil, "every vote the node sent is back in its vote sets after the restart")
		if own != nil {
			sym.Assert(e2.decisionOf(own) == r.which, "with the decision it was sent with")
		}
	}
	sym.Reach("restored")
}

package consensus

// Harness for property C03 (the write-ahead log recovers exactly the durable
// prefix after any crash).  The real walWriter / walReader code runs over a
// file system: natively the real one (a temporary directory), under gosym an
// in-memory model substituted for the os functions through the "replace"
// table of props/C03.json (vhC03OpenFile, ...).  A crash is "the tail
// segment keeps an arbitrary prefix of the bytes written since its last
// fsync; bytes still in the process (bufio) are lost".

import (
	"bytes"
	"io"
	"os"
	"time"

	"github.com/icon-project/goloop/zzverif/sym"
)

// ---------------------------------------------------------------- model --

type vhC03File struct {
	data     []byte
	sizeOnly bool  // contents unknown, only the (possibly symbolic) size is tracked
	size     int64 // valid when sizeOnly
}

type vhC03Handle struct {
	name string
	f    *vhC03File
	pos  int
	dir  bool
}

type vhC03State struct {
	dir     string
	names   []string // creation order
	files   map[string]*vhC03File
	handles map[*os.File]*vhC03Handle
}

var vhC03 *vhC03State

func vhC03Reset(dir string) {
	vhC03 = &vhC03State{dir: dir, files: map[string]*vhC03File{}, handles: map[*os.File]*vhC03Handle{}}
}

type vhC03Info struct {
	name string
	size int64
}

func (i *vhC03Info) Name() string       { return i.name }
func (i *vhC03Info) Size() int64        { return i.size }
func (i *vhC03Info) Mode() os.FileMode  { return 0600 }
func (i *vhC03Info) ModTime() time.Time { return time.Time{} }
func (i *vhC03Info) IsDir() bool        { return false }
func (i *vhC03Info) Sys() interface{}   { return nil }

func (f *vhC03File) length() int64 {
	if f.sizeOnly {
		return f.size
	}
	return int64(len(f.data))
}

func vhC03OpenFile(name string, flag int, perm os.FileMode) (*os.File, error) {
	f, ok := vhC03.files[name]
	if !ok {
		if flag&os.O_CREATE == 0 {
			return nil, os.ErrNotExist
		}
		f = &vhC03File{}
		vhC03.files[name] = f
		vhC03.names = append(vhC03.names, name)
	}
	h := new(os.File)
	vhC03.handles[h] = &vhC03Handle{name: name, f: f}
	return h, nil
}

func vhC03Open(name string) (*os.File, error) {
	if name == vhC03.dir {
		h := new(os.File)
		vhC03.handles[h] = &vhC03Handle{name: name, dir: true}
		return h, nil
	}
	return vhC03OpenFile(name, os.O_RDONLY, 0)
}

func vhC03Write(h *os.File, b []byte) (int, error) {
	f := vhC03.handles[h].f
	f.data = append(f.data, b...) // O_APPEND
	return len(b), nil
}

func vhC03Read(h *os.File, b []byte) (int, error) {
	hd := vhC03.handles[h]
	if hd.pos >= len(hd.f.data) {
		return 0, io.EOF
	}
	n := copy(b, hd.f.data[hd.pos:])
	hd.pos += n
	return n, nil
}

func vhC03Sync(h *os.File) error  { return nil }
func vhC03Close(h *os.File) error { return nil }

func vhC03Readdir(h *os.File, n int) ([]os.FileInfo, error) {
	var r []os.FileInfo
	for _, nm := range vhC03.names {
		if f, ok := vhC03.files[nm]; ok {
			r = append(r, &vhC03Info{name: nm[len(vhC03.dir)+1:], size: f.length()})
		}
	}
	return r, nil
}

func vhC03Truncate(name string, size int64) error {
	f, ok := vhC03.files[name]
	if !ok {
		return os.ErrNotExist
	}
	if f.sizeOnly {
		f.size = size
		return nil
	}
	if size < 0 {
		return os.ErrInvalid
	}
	if size <= int64(len(f.data)) {
		f.data = f.data[:size]
		return nil
	}
	f.sizeOnly = true
	f.size = size
	return nil
}

func vhC03Remove(name string) error {
	if _, ok := vhC03.files[name]; !ok {
		return os.ErrNotExist
	}
	delete(vhC03.files, name)
	return nil
}

func vhC03Stat(name string) (os.FileInfo, error) {
	f, ok := vhC03.files[name]
	if !ok {
		return nil, os.ErrNotExist
	}
	return &vhC03Info{name: name, size: f.length()}, nil
}

func vhC03MkdirAll(path string, perm os.FileMode) error { return nil }

func vhC03NoHousekeeping(w *walWriter) {}

func vhC03StopHousekeeping(w *walWriter) {}

// --------------------------------------------------------------- common --

func vhC03Dir() string {
	if sym.Symbolic() {
		vhC03Reset("/wal")
		return "/wal"
	}
	d, err := os.MkdirTemp("", "vhc03")
	if err != nil {
		panic(err)
	}
	return d
}

func vhC03Cleanup(dir string) {
	if !sym.Symbolic() {
		os.RemoveAll(dir)
	}
}

func vhC03Size(path string) int64 {
	fi, err := os.Stat(path)
	if err != nil {
		return -1
	}
	return fi.Size()
}

// vhC03Recover is the loop every caller in consensus.go runs on start-up
// (applyRoundWAL / applyLockWAL / applyCommitWAL): read until an error; a
// clean EOF closes, a torn or corrupted record closes and repairs.
func vhC03Recover(id string) (recs [][]byte, repaired bool) {
	wr, err := OpenWALForRead(id)
	sym.Assert(err == nil, "the log opens for reading")
	for {
		bs, err := wr.ReadBytes()
		if IsEOF(err) {
			sym.Assert(wr.Close() == nil, "Close succeeds")
			return recs, false
		} else if IsCorruptedWAL(err) || IsUnexpectedEOF(err) {
			sym.Assert(wr.CloseAndRepair() == nil, "CloseAndRepair succeeds")
			return recs, true
		}
		sym.Assert(err == nil, "reading fails only with EOF, unexpected EOF or corrupted record")
		recs = append(recs, bs)
	}
}

// crash/recover/append cycles over the real writer and reader
func VH_C03_cycles() {
	dir := vhC03Dir()
	defer vhC03Cleanup(dir)
	id := dir + "/round"
	maxRec := sym.Param("K", 2)
	maxLen := sym.Param("L", 1)
	cycles := sym.Param("CYCLES", 2)
	var log [][]byte // records appended and not (legitimately) lost so far
	durable := 0     // log[:durable] were synced
	for c := 0; c < cycles; c++ {
		ww, err := OpenWALForWrite(id, &WALConfig{HousekeepingInterval: time.Hour})
		sym.Assert(err == nil, "the log opens for writing")
		w := ww.(*walWriter)
		tailSynced := vhC03Size(fileFor(id, w.tailIdx)) // everything present at open time survived a recovery
		if c > 0 {
			maxRec = sym.Param("K2", maxRec)
		}
		k := sym.Range("k", 0, maxRec)
		for r := 0; r < k; r++ {
			p := sym.Bytes("p", sym.Len("len", maxLen))
			_, err := w.WriteBytes(p)
			sym.Assert(err == nil, "WriteBytes succeeds")
			log = append(log, p)
			switch sym.Choose("after", 4) {
			case 0: // stays in the process buffer
			case 1: // the buffer reaches the OS without fsync (what a full bufio buffer does)
				sym.Assert(w.buf.Flush() == nil, "flush")
				sym.Reach("unsynced-in-file")
			case 2:
				sym.Assert(w.Sync() == nil, "Sync succeeds")
				durable = len(log)
				tailSynced = vhC03Size(fileFor(id, w.tailIdx))
			default: // segment rotation (what housekeeping does past the file limit)
				sym.Assert(w.Shift() == nil, "Shift succeeds")
				durable = len(log)
				tailSynced = 0
				sym.Reach("shifted")
			}
		}
		// crash: the tail keeps an arbitrary prefix of its not-yet-synced bytes
		tail := fileFor(id, w.tailIdx)
		size := vhC03Size(tail)
		sym.Assert(size >= tailSynced, "harness: file at least as long as its synced part")
		cut := tailSynced + int64(sym.Range("cut", 0, int(size-tailSynced)))
		if cut < size {
			sym.Reach("torn")
			sym.Assert(os.Truncate(tail, cut) == nil, "harness: truncate")
		}
		if !sym.Symbolic() {
			w.ticker.Stop()
			w.tail.File.Close()
		}

		recs, repaired := vhC03Recover(id)
		if repaired {
			sym.Reach("repaired")
		}
		sym.Assert(len(recs) >= durable, "every synced record is returned after the crash")
		sym.Assert(len(recs) <= len(log), "no record that was never appended is returned")
		for i := range recs {
			if i < len(log) {
				sym.Assert(bytes.Equal(recs[i], log[i]), "record i is returned exactly as appended (a prefix of the appended records)")
			}
		}
		// a second recovery (no new crash) returns the same records: repair left a clean log
		again, rep2 := vhC03Recover(id)
		sym.Assert(!rep2, "a repaired log needs no further repair")
		sym.Assert(len(again) == len(recs), "repair keeps exactly the recovered records")
		for i := range again {
			if i < len(recs) {
				sym.Assert(bytes.Equal(again[i], recs[i]), "repair keeps the recovered records unchanged")
			}
		}
		if len(recs) <= len(log) {
			log = log[:len(recs)]
		}
		durable = len(log) // what survived a recovery is on disk
	}
	sym.Reach("done")
}

// the repair arithmetic alone: any segment sizes, any valid offset
func VH_C03_repair() {
	dir := vhC03Dir()
	defer vhC03Cleanup(dir)
	id := dir + "/round"
	n := sym.Range("segments", 1, sym.Param("SEGS", 3))
	head := uint64(sym.Choose("head", 3))
	sizes := make([]int64, n)
	total := int64(0)
	for i := range sizes {
		sizes[i] = sym.I64("size")
		sym.Assume(sym.And(sizes[i] >= 0, sizes[i] <= 1<<16))
		total += sizes[i]
		f, err := os.OpenFile(fileFor(id, head+uint64(i)), os.O_CREATE|os.O_WRONLY, walPermission)
		sym.Assert(err == nil, "harness: create")
		f.Close()
		sym.Assert(os.Truncate(fileFor(id, head+uint64(i)), sizes[i]) == nil, "harness: size")
	}
	v := sym.I64("validOffset")
	sym.Assume(sym.And(v >= 0, v <= total))
	wi, err := readWALInfo(id)
	sym.Assert(err == nil, "readWALInfo succeeds")
	sym.Assert(sym.And(wi.headIdx == head, wi.tailIdx == head+uint64(n-1)), "readWALInfo finds head and tail")
	r := &walReader{id: id, wi: wi, validOffset: v}
	sym.Assert(r.CloseAndRepair() == nil, "CloseAndRepair succeeds")
	// expected: the concatenation of the segments is cut at v
	left := v
	for i := range sizes {
		want := sizes[i]
		if left < want {
			want = left
		}
		left -= want
		got := vhC03Size(fileFor(id, head+uint64(i)))
		if got < 0 {
			sym.Reach("removed")
			sym.Assert(want == 0, "a removed segment held no valid byte")
			sym.Assert(i > 0, "the first segment is never removed")
		} else {
			sym.Assert(got == want, "a surviving segment keeps exactly its valid bytes")
			if want < sizes[i] {
				sym.Reach("truncated")
			}
		}
	}
	sym.Assert(left == 0, "harness: valid offset within the total")
}

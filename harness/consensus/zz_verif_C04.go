package consensus

// Harness for property C04 (vote tallies report a 2/3 majority exactly when
// one exists).  The decision digest of a vote is set directly (one symbolic
// byte), so "equal digest <=> same decision": SHA3 is abstracted away.

import (
	"github.com/icon-project/goloop/zzverif/sym"
)

func vhC04Vote(i int) (*VoteMessage, byte) {
	m := newVoteMessage()
	m.Height = 10
	m.Round = int32(sym.Choose("round", 2))
	m.Type = VoteTypePrevote
	d := sym.U8("d")
	sym.Assume(d < 4)
	if d != 0 {
		m.BlockID = []byte{d}
		m.BlockPartSetIDAndNTSVoteCount = &PartSetIDAndAppData{CountWord: 1, Hash: []byte{d}}
	}
	m.decisionDigest = []byte{d}
	m.Timestamp = int64(sym.U8("ts") & 1)
	return m, d
}

// independent recount over the slots
func vhC04Recount(vs *voteSet) (total int, maxD byte, maxC int, nOver int) {
	n := len(vs.msgs)
	for d := 0; d < 4; d++ {
		c := 0
		for _, m := range vs.msgs {
			if m != nil && m.decisionDigest[0] == byte(d) {
				c++
			}
		}
		if c > n*2/3 {
			nOver++
			maxD = byte(d)
			maxC = c
		}
	}
	for _, m := range vs.msgs {
		if m != nil {
			total++
		}
	}
	return
}

func vhC04Check(vs *voteSet) {
	n := len(vs.msgs)
	total, maxD, _, nOver := vhC04Recount(vs)
	sym.Assert(vs.count == total, "count equals the number of filled slots")
	sum := 0
	for _, c := range vs.counters {
		sum += c.count
		sym.Assert(c.count > 0, "no empty counter is kept")
		k := 0
		for _, m := range vs.msgs {
			if m != nil && m.decisionDigest[0] == c.roundDecisionDigest[0] {
				k++
			}
		}
		sym.Assert(k == c.count, "counter equals the number of slots voting for its decision")
	}
	sym.Assert(sum == total, "counters add up to the number of filled slots")
	sym.Assert(nOver <= 1, "at most one decision can have +2/3")
	rdd, psid, ok := vs.getOverTwoThirdsRoundDecisionDigest()
	sym.Assert(ok == (nOver == 1), "+2/3 reported exactly when some decision holds more than 2n/3 slots")
	if ok {
		sym.Reach("over-two-thirds")
		sym.Assert(len(rdd) == 1 && rdd[0] == maxD, "the reported decision is the one with +2/3")
		if maxD == 0 {
			sym.Reach("nil-decision")
			sym.Assert(psid == nil, "nil decision has no part set id")
		} else {
			sym.Assert(psid != nil && psid.Count == 1 && psid.Hash[0] == maxD, "part set id belongs to the decision")
		}
		p2, ok2 := vs.getOverTwoThirdsPartSetID()
		sym.Assert(ok2 && psid.Equal(p2), "getOverTwoThirdsPartSetID agrees")
	}
	sym.Assert(vs.hasOverTwoThirds() == (total > n*2/3), "hasOverTwoThirds counts filled slots")
	for i := 0; i < n; i++ {
		sym.Assert(vs.getMask().Get(i) == (vs.msgs[i] != nil), "mask marks exactly the filled slots")
	}
}

// K adds (duplicates, conflicting re-votes, nil votes) from the empty set.
func VH_C04_history() {
	n := sym.Param("N", 4)
	k := sym.Param("K", 4)
	vs := newVoteSet(n)
	for step := 0; step < k; step++ {
		idx := sym.Choose("idx", n)
		v, _ := vhC04Vote(step)
		old := vs.msgs[idx]
		_, pd, _, pOver := vhC04Recount(vs)
		added := vs.add(idx, v)
		if added {
			sym.Assert(vs.msgs[idx] == v, "added vote is stored in its slot")
			sym.Assert(vs.getRound() == v.Round, "round follows the last added vote")
		} else {
			sym.Reach("refused")
			sym.Assert(vs.msgs[idx] == old, "refused vote leaves the slot unchanged")
			sym.Assert(old != nil, "a vote into an empty slot is never refused")
		}
		if old != nil && added {
			sym.Reach("replaced")
		}
		vhC04Check(vs)
		if pOver == 1 {
			_, nd, _, nOver := vhC04Recount(vs)
			sym.Assert(nOver == 1 && nd == pd, "a decision that had +2/3 keeps it after any later vote")
		}
	}
}

// checkAndAdd (commit vote sets): only votes for the established decision and round are added
func VH_C04_check_and_add() {
	n := sym.Param("N", 4)
	vs := newVoteSet(n)
	for step := 0; step < 3; step++ {
		v, _ := vhC04Vote(step)
		vs.add(step, v)
	}
	_, pd, _, pOver := vhC04Recount(vs)
	idx := sym.Choose("idx", n)
	v, d := vhC04Vote(9)
	round := vs.getRound()
	added := vs.checkAndAdd(idx, v)
	if added {
		sym.Reach("added")
		sym.Assert(pOver == 1 && d == pd && v.Round == round, "checkAndAdd accepts only votes for the +2/3 decision of the same round")
	}
	if pOver != 1 {
		sym.Reach("no-majority")
		sym.Assert(!added, "checkAndAdd refuses everything while there is no +2/3 decision")
	}
	vhC04Check(vs)
}

// threshold arithmetic of the real hasOverTwoThirds: two +2/3 sets of slots
// intersect in more than f slots, for every n <= NQ and every f with 3f < n
func VH_C04_quorum_intersection() {
	n := sym.Range("n", 1, sym.Param("NQ", 64))
	a := sym.Int("a")
	b := sym.Int("b")
	f := sym.Int("f")
	sym.Assume(a >= 0 && a <= n && b >= 0 && b <= n && f >= 0 && f <= n && 3*f < n)
	va := &voteSet{msgs: make([]*VoteMessage, n), count: a}
	vb := &voteSet{msgs: make([]*VoteMessage, n), count: b}
	if va.hasOverTwoThirds() && vb.hasOverTwoThirds() {
		sym.Reach("two-quorums")
		sym.Assert(a+b-n > f, "two +2/3 sets share more than f slots (so at least one correct validator)")
	}
}

package consensus

// C04, step form: from any vote set reached by filling the slots in turn
// (each slot empty or holding a vote for one of three decisions) and possibly
// queried already (so that the cached leading counter is set), K2 further
// arbitrary votes (first votes, duplicates, conflicting re-votes, the same
// decision signed again with another timestamp) keep every tally exact.

import (
	"github.com/icon-project/goloop/zzverif/sym"
)

func vhC04VoteD(nd byte) *VoteMessage {
	m := newVoteMessage()
	m.Height = 10
	m.Round = 0
	m.Type = VoteTypePrevote
	d := sym.U8("d")
	sym.Assume(d < nd)
	if d != 0 {
		m.BlockID = []byte{d}
		m.BlockPartSetIDAndNTSVoteCount = &PartSetIDAndAppData{CountWord: 1, Hash: []byte{d}}
	}
	m.decisionDigest = []byte{d}
	m.Timestamp = int64(sym.U8("ts") & 1)
	return m
}

func VH_C04_step() {
	n := sym.Param("N", 4)
	vs := newVoteSet(n)
	for i := 0; i < n; i++ {
		if sym.Bool("filled") {
			vs.add(i, vhC04VoteD(3))
		}
	}
	if sym.Bool("queried") {
		vs.getOverTwoThirdsRoundDecisionDigest()
		sym.Reach("queried-before")
	}
	vhC04Check(vs)
	for s := 0; s < sym.Param("K2", 2); s++ {
		idx := sym.Choose("idx", n)
		v := vhC04VoteD(3)
		old := vs.msgs[idx]
		_, pd, _, pOver := vhC04Recount(vs)
		added := vs.add(idx, v)
		if added {
			sym.Assert(vs.msgs[idx] == v, "added vote is stored in its slot")
		} else {
			sym.Assert(vs.msgs[idx] == old && old != nil, "refused vote leaves the slot unchanged")
		}
		if old != nil && added {
			sym.Reach("replaced-step")
		}
		vhC04Check(vs)
		if pOver == 1 {
			_, nd, _, nOver := vhC04Recount(vs)
			sym.Assert(nOver == 1 && nd == pd, "a decision that had +2/3 keeps it after any later vote")
		}
	}
}

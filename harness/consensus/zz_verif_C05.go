package consensus

// Harness for property C05 (commit certificates are accepted only with >2/3
// distinct valid signatures).  The real blockCommitVoteList.VerifyBlock runs
// over a vote list whose items were signed by arbitrary keys (validators or a
// foreign key) over the target vote or over a vote that deviates from it in
// one field.  Keys/signatures: key model under gosym, real keys natively.
// SHA3 of the (symbolic) vote encoding is uninterpreted and collision-free.

import (
	"github.com/icon-project/goloop/common"
	"github.com/icon-project/goloop/common/crypto"
	"github.com/icon-project/goloop/module"
	"github.com/icon-project/goloop/zzverif/sym"
)

type vhC05Wallet struct {
	priv *crypto.PrivateKey
	pub  *crypto.PublicKey
}

func (w *vhC05Wallet) Address() module.Address { return common.NewAccountAddressFromPublicKey(w.pub) }
func (w *vhC05Wallet) PublicKey() []byte       { return w.pub.SerializeCompressed() }
func (w *vhC05Wallet) Sign(data []byte) ([]byte, error) {
	sig, err := crypto.NewSignature(data, w.priv)
	if err != nil {
		return nil, err
	}
	return sig.SerializeRSV()
}

type vhC05Validators struct {
	module.ValidatorList
	addrs []module.Address
}

func (v *vhC05Validators) Len() int { return len(v.addrs) }
func (v *vhC05Validators) IndexOf(a module.Address) int {
	if a == nil {
		return -1
	}
	for i, x := range v.addrs {
		if x.Equal(a) {
			return i
		}
	}
	return -1
}

type vhC05Block struct {
	module.BlockData
	height int64
	id     []byte
}

func (b *vhC05Block) Height() int64 { return b.height }
func (b *vhC05Block) ID() []byte    { return b.id }

func vhC05Small(name string) int64 {
	v := sym.I64(name)
	sym.Assume(sym.And(v >= 1, v <= 120)) // one-byte encodings: keeps the vote encoding a fixed shape
	return v
}

func VH_C05_verify_block() {
	n := sym.Range("validators", 1, sym.Param("N", 3))
	wallets := make([]*vhC05Wallet, n+1) // the last one is not a validator
	vals := &vhC05Validators{}
	for i := range wallets {
		priv, pub := crypto.GenerateKeyPair()
		wallets[i] = &vhC05Wallet{priv, pub}
		if i < n {
			vals.addrs = append(vals.addrs, wallets[i].Address())
		}
	}
	blk := &vhC05Block{height: vhC05Small("height"), id: sym.Bytes("bid", 2)}
	round := int32(vhC05Small("round"))
	psid := &PartSetIDAndAppData{CountWord: uint64(vhC05Small("parts")), Hash: sym.Bytes("psh", 1)}
	bvl := &blockCommitVoteList{Round: round, BlockPartSetIDAndAppData: psid}

	// items 0..m-1 are signed by validators 0..m-1 in turn, except one special
	// item whose signer is arbitrary (another validator: a duplicate; the
	// foreign key; or its own) and which may deviate from the target in one field
	m := sym.Range("items", 0, n)
	special := sym.Choose("special", m+1) - 1 // -1: no special item
	deviant := -1
	if special >= 0 && sym.Bool("deviates") {
		deviant = special
	}
	good := make([]bool, n)
	nGood := 0
	allGood := true
	for i := 0; i < m; i++ {
		signer := i
		if i == special {
			signer = sym.Choose("signer", n+1)
		}
		v := newVoteMessage()
		v.Height = blk.height
		v.Round = round
		v.Type = VoteTypePrecommit
		v.BlockID = blk.id
		v.BlockPartSetIDAndNTSVoteCount = psid
		v.Timestamp = vhC05Small("ts")
		itemTS := v.Timestamp
		exact := true
		if i == deviant {
			exact = false
			switch sym.Choose("field", 7) {
			case 0:
				v.Height = vhC05Small("height2")
				sym.Assume(v.Height != blk.height)
			case 1:
				v.Round = int32(vhC05Small("round2"))
				sym.Assume(v.Round != round)
			case 2:
				v.Type = VoteTypePrevote
			case 3:
				v.BlockID = sym.Bytes("bid2", 2)
				sym.Assume(sym.Or(v.BlockID[0] != blk.id[0], v.BlockID[1] != blk.id[1]))
			case 4:
				h2 := sym.Bytes("psh2", 1)
				sym.Assume(h2[0] != psid.Hash[0])
				v.BlockPartSetIDAndNTSVoteCount = &PartSetIDAndAppData{CountWord: psid.CountWord, Hash: h2}
			case 5:
				c2 := uint64(vhC05Small("parts2"))
				sym.Assume(c2 != psid.CountWord)
				v.BlockPartSetIDAndNTSVoteCount = &PartSetIDAndAppData{CountWord: c2, Hash: psid.Hash}
			default:
				itemTS = vhC05Small("ts2") // the list claims another timestamp than the signed one
				sym.Assume(itemTS != v.Timestamp)
			}
		}
		sym.Assert(v.Sign(wallets[signer]) == nil, "harness: signing succeeds")
		bvl.Items = append(bvl.Items, blockCommitVoteItem{Timestamp: itemTS, Signature: v.Signature})
		if exact && signer < n && !good[signer] {
			good[signer] = true
			nGood++
		} else {
			allGood = false
		}
	}
	vset, err := bvl.VerifyBlock(blk, vals)
	if err == nil {
		sym.Reach("accepted")
		sym.Assert(allGood, "an accepted list holds only precommits for exactly this block, round and part set, each by a distinct validator")
		sym.Assert(3*nGood > 2*n, "an accepted list is signed by more than two thirds of the validators")
		sym.Assert(len(vset) == n, "the voter set covers the validators")
		for i := range good {
			if i < len(vset) {
				sym.Assert(vset[i] == good[i], "the voter set marks exactly the signers")
			}
		}
	} else {
		sym.Reach("rejected")
		sym.Assert(!allGood || 3*nGood <= 2*n, "a list of enough distinct valid precommits for this block is accepted")
	}
}

// height 0 / no validator list: only the empty list is accepted
func VH_C05_genesis() {
	blk := &vhC05Block{height: 0, id: sym.Bytes("bid", 2)}
	priv, pub := crypto.GenerateKeyPair()
	w := &vhC05Wallet{priv, pub}
	bvl := &blockCommitVoteList{Round: 0}
	if sym.Bool("with_item") {
		v := newVoteMessage()
		v.Type = VoteTypePrecommit
		v.BlockID = blk.id
		sym.Assert(v.Sign(w) == nil, "harness: signing succeeds")
		bvl.Items = append(bvl.Items, blockCommitVoteItem{Timestamp: 0, Signature: v.Signature})
		_, err := bvl.VerifyBlock(blk, &vhC05Validators{addrs: []module.Address{w.Address()}})
		sym.Assert(err != nil, "a vote list for height 0 is rejected")
		sym.Reach("non-empty")
	} else {
		_, err := bvl.VerifyBlock(blk, nil)
		sym.Assert(err == nil, "the empty list is accepted for height 0")
	}
}

package consensus

// C05, continued: a vote list item whose signature cannot be recovered (no
// recovery id: 64 bytes, which the wire format accepts) is rejected - with
// the REAL validator list implementation - instead of crashing the verifier.

import (
	"github.com/icon-project/goloop/common"
	"github.com/icon-project/goloop/common/crypto"
	"github.com/icon-project/goloop/common/db"
	"github.com/icon-project/goloop/module"
	"github.com/icon-project/goloop/service/state"
	"github.com/icon-project/goloop/zzverif/sym"
)

func VH_C05_unrecoverable_signature() {
	n := sym.Range("validators", 1, 2)
	wallets := make([]*vhC05Wallet, n)
	var vals []module.Validator
	for i := range wallets {
		priv, pub := crypto.GenerateKeyPair()
		wallets[i] = &vhC05Wallet{priv, pub}
		v, err := state.ValidatorFromAddress(wallets[i].Address())
		sym.Assert(err == nil, "harness: validator")
		vals = append(vals, v)
	}
	vl, err := state.ValidatorSnapshotFromSlice(db.NewMapDB(), vals)
	sym.Assert(err == nil, "harness: validator list")
	blk := &vhC05Block{height: 5, id: []byte{1, 2}}
	psid := &PartSetIDAndAppData{CountWord: 1, Hash: []byte{7}}
	bvl := &blockCommitVoteList{Round: 1, BlockPartSetIDAndAppData: psid}
	// genuine precommits of all validators ...
	for i := 0; i < n; i++ {
		v := newVoteMessage()
		v.Height, v.Round, v.Type, v.BlockID, v.BlockPartSetIDAndNTSVoteCount, v.Timestamp = 5, 1, VoteTypePrecommit, blk.id, psid, 9
		sym.Assert(v.Sign(wallets[i]) == nil, "harness: signing succeeds")
		bvl.Items = append(bvl.Items, blockCommitVoteItem{Timestamp: 9, Signature: v.Signature})
	}
	// ... and one item with arbitrary 64 bytes (no recovery id) at any position
	bad, err := crypto.ParseSignature(sym.Bytes("rs", 64))
	sym.Assert(err == nil, "a 64-byte signature parses (the wire format accepts it)")
	pos := sym.Choose("pos", n+1)
	items := append([]blockCommitVoteItem{}, bvl.Items[:pos]...)
	items = append(items, blockCommitVoteItem{Timestamp: 9, Signature: common.Signature{Signature: bad}})
	items = append(items, bvl.Items[pos:]...)
	bvl.Items = items
	_, err = bvl.VerifyBlock(blk, vl)
	sym.Assert(err != nil, "a vote list with an unrecoverable signature is rejected")
	sym.Reach("rejected")
}

package consensus

// C05, fast-sync path: the real consensus.processBlock (commit vote list from
// bytes -> toVoteListWithBlock -> the height vote set -> +2/3 precommit test
// -> part set id comparison) consumes a block only if more than two thirds of
// the validators signed a precommit for exactly this block, round and part
// set.  Signers, deviations and timestamps of the items are arbitrary; one
// validator may appear several times with different timestamps.

import (
	"io"

	"github.com/icon-project/goloop/common/crypto"
	"github.com/icon-project/goloop/common/db"
	"github.com/icon-project/goloop/consensus/fastsync"
	"github.com/icon-project/goloop/module"
	"github.com/icon-project/goloop/zzverif/sym"
)

func (c *vhC01Chain) Database() db.Database { return db.NewMapDB() }

type vhC05FSBlock struct {
	module.BlockData
	height int64
	id     []byte
}

func (b *vhC05FSBlock) Height() int64 { return b.height }
func (b *vhC05FSBlock) ID() []byte    { return b.id }
func (b *vhC05FSBlock) NTSHashEntryList() (module.NTSHashEntryList, error) {
	return vhC01NoNTS{}, nil
}
func (b *vhC05FSBlock) MarshalHeader(w io.Writer) error { _, err := w.Write([]byte{0xC5, b.id[0]}); return err }
func (b *vhC05FSBlock) MarshalBody(w io.Writer) error   { _, err := w.Write([]byte{0x05}); return err }

type vhC05BR struct {
	fastsync.BlockResult
	blk      module.BlockData
	votes    []byte
	consumed int
	rejected int
}

func (b *vhC05BR) Block() module.BlockData { return b.blk }
func (b *vhC05BR) Votes() []byte           { return b.votes }
func (b *vhC05BR) Reject()                 { b.rejected++ }
func (b *vhC05BR) Consume() {
	b.consumed++
	panic(vhC01Stop{}) // the decision is the subject; committing the block needs the whole node
}

func VH_C05_fast_sync() {
	n := sym.Range("validators", 1, sym.Param("NFS", 3))
	wallets := make([]*vhC05Wallet, n+1) // the last one is not a validator
	vals := &vhC05Validators{}
	for i := range wallets {
		priv, pub := crypto.GenerateKeyPair()
		wallets[i] = &vhC05Wallet{priv, pub}
		if i < n {
			vals.addrs = append(vals.addrs, wallets[i].Address())
		}
	}
	e := vhC01New()
	cs := e.cs
	cs.validators = vals
	cs.lastBlock = &vhC01Block{id: []byte{0}, vals: vals}
	cs.hvs.reset(n)
	cs.step = stepPropose
	cs.syncing = true

	blk := &vhC05FSBlock{height: cs.height, id: []byte{0x5A, 0x01}}
	psb := NewPartSetBuffer(ConfigBlockPartSize)
	sym.Assert(blk.MarshalHeader(psb) == nil && blk.MarshalBody(psb) == nil, "harness: block bytes")
	psid := psb.PartSet().ID().WithAppData(0)
	round := int32(vhC05Small("round"))
	cvl := &CommitVoteList{}
	cvl.Round = round
	cvl.BlockPartSetIDAndAppData = psid

	// items 0..k-1 are exact precommits of validators 0..k-1 in turn, except one
	// special item (arbitrary signer, possibly deviating); optionally one more
	// item follows: a second exact precommit of an arbitrary validator (another
	// timestamp, so another signature)
	k := sym.Range("items", 0, n)
	special := sym.Choose("special", k+1) - 1 // -1: none
	m := k
	if sym.Bool("resigned_item") {
		m = k + 1
	}
	good := make([]bool, n)
	nGood := 0
	allGood := true
	for i := 0; i < m; i++ {
		signer := i
		if i == special || i == k {
			signer = sym.Choose("signer", n+1)
		}
		if i == k {
			sym.Assume(signer < n)
		}
		v := newVoteMessage()
		v.Height, v.Round, v.Type = blk.height, round, VoteTypePrecommit
		v.BlockID = blk.id
		v.BlockPartSetIDAndNTSVoteCount = psid
		v.Timestamp = vhC05Small("ts")
		itemTS := v.Timestamp
		exact := true
		dev := 0
		if i == special {
			dev = sym.Choose("deviation", 4)
		}
		switch dev {
		case 1:
			v.BlockID = []byte{0x5A, 0x02} // signed another block
			exact = false
		case 2:
			v.Type = VoteTypePrevote // signed a prevote
			exact = false
		case 3:
			itemTS = vhC05Small("ts2") // the list claims another timestamp than the signed one
			sym.Assume(itemTS != v.Timestamp)
			exact = false
		}
		sym.Assert(v.Sign(wallets[signer]) == nil, "harness: signing succeeds")
		cvl.Items = append(cvl.Items, blockCommitVoteItem{Timestamp: itemTS, Signature: v.Signature})
		if exact && signer < n {
			if !good[signer] {
				good[signer] = true
				nGood++
			} else {
				sym.Reach("same-validator-twice")
			}
		} else {
			allGood = false
		}
	}
	br := &vhC05BR{blk: blk, votes: cvl.Bytes()}
	vhC01Step(func() { cs.processBlock(br) })
	sym.Assert(br.consumed+br.rejected == 1, "a fast-sync block is either consumed or rejected")
	if br.consumed == 1 {
		sym.Reach("consumed")
		sym.Assert(3*nGood > 2*n, "a fast-sync block is consumed only with precommits for exactly this block by more than two thirds of the validators (each counted once)")
	} else {
		sym.Reach("rejected-fs")
		sym.Assert(!allGood || 3*nGood <= 2*n, "a fast-sync block with enough valid precommits of distinct validators is consumed")
	}
}

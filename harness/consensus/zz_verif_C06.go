package consensus

// Harness for property C06 (double-sign evidence is accepted only for genuine
// conflicts).  Signers are two freshly generated keys (the key model of the
// engine; real keys natively), plugged into the cached _publicKey field, so no
// ECDSA is executed.  Message content hashes are either abstract (cached
// _hash set to one symbolic byte) or the real SHA3 of the real encoding.

import (
	"github.com/icon-project/goloop/common/codec"
	"github.com/icon-project/goloop/common/crypto"
	"github.com/icon-project/goloop/module"
	"github.com/icon-project/goloop/zzverif/sym"
)

var vhC06Keys []*crypto.PublicKey

func vhC06Key(i int) *crypto.PublicKey {
	for len(vhC06Keys) <= i {
		_, pub := crypto.GenerateKeyPair()
		vhC06Keys = append(vhC06Keys, pub)
	}
	return vhC06Keys[i]
}

// a vote with arbitrary fields; nidMode: 0 = non-nil vote (nid in app data),
// 1 = nil vote whose block id is the encoding of an arbitrary int32,
// 2 = nil vote with an arbitrary (possibly undecodable) block id of <= 2 bytes
func vhC06Vote(tag string, modes int) (*VoteMessage, uint32) {
	abstractHash := true
	m := newVoteMessage()
	m.Height = sym.I64(tag + ".height")
	m.Round = sym.I32(tag + ".round")
	m.Type = VoteType(sym.U8(tag + ".type"))
	m.Timestamp = sym.I64(tag + ".ts")
	var nid uint32
	switch sym.Choose(tag+".nidmode", modes) {
	case 0:
		nid = sym.U32(tag + ".nid")
		cnt := sym.U16(tag + ".ntscount")
		m.BlockID = sym.Bytes(tag+".bid", 1)
		m.BlockPartSetIDAndNTSVoteCount = &PartSetIDAndAppData{
			CountWord: (uint64(nid)<<16|uint64(cnt))<<16 | uint64(sym.U16(tag+".parts")),
			Hash:      sym.Bytes(tag+".psh", 1),
		}
	case 1:
		v := sym.I32(tag + ".nid")
		nid = uint32(v)
		m.BlockID = codec.MustMarshalToBytes(v)
	default:
		m.BlockID = sym.Bytes(tag+".bid", sym.Len(tag+".bidlen", 2))
		var x int32
		if _, err := codec.UnmarshalFromBytes(m.BlockID, &x); err == nil {
			nid = uint32(x)
		}
	}
	if sym.Bool(tag + ".signerB") {
		m._publicKey = vhC06Key(1)
	} else {
		m._publicKey = vhC06Key(0)
	}
	if abstractHash {
		m._hash = sym.Bytes(tag+".hash", 1)
	}
	return m, nid
}

func vhC06SameSigner(a, b *crypto.PublicKey) bool { return a == b }

// IsConflictWith(a,b) <=> the specification, for votes; symmetric; irreflexive
func VH_C06_vote_predicate() {
	a, nidA := vhC06Vote("a", 2)
	b, nidB := vhC06Vote("b", 2)
	vhC06VotePredicate(a, b, nidA, nidB)
}

// one of the votes is a nil vote with an arbitrary (possibly undecodable) block id
func VH_C06_vote_predicate_rawbid() {
	a, nidA := vhC06Vote("a", 2)
	b := newVoteMessage()
	b.Height = sym.I64("b.height")
	b.Round = sym.I32("b.round")
	b.Type = VoteType(sym.U8("b.type"))
	b.BlockID = sym.Bytes("b.bid", sym.Len("b.bidlen", sym.Param("RAWBID", 2)))
	b._publicKey = vhC06Key(0)
	sym.Assume(a._publicKey == b._publicKey)
	b._hash = sym.Bytes("b.hash", 1)
	var nidB uint32
	var x int32
	if _, err := codec.UnmarshalFromBytes(b.BlockID, &x); err == nil {
		sym.Reach("decodable")
		nidB = uint32(x)
	} else {
		sym.Reach("undecodable")
	}
	if sym.Bool("swap") {
		vhC06VotePredicate(b, a, nidB, nidA)
	} else {
		vhC06VotePredicate(a, b, nidA, nidB)
	}
}

func vhC06VotePredicate(a, b *VoteMessage, nidA, nidB uint32) {
	da, db := &dsVote{a}, &dsVote{b}
	want := sym.And(a.Type == b.Type, a.Height == b.Height, a.Round == b.Round,
		vhC06SameSigner(a._publicKey, b._publicKey),
		sym.Or(nidA == 0, nidB == 0, nidA == nidB),
		a._hash[0] != b._hash[0])
	got := da.IsConflictWith(db)
	if want {
		sym.Reach("conflict")
	}
	if sym.And(nidA != 0, nidB != 0, nidA != nidB) {
		sym.Reach("different-networks")
		sym.Assert(!got, "votes from different networks are never a conflict")
	}
	sym.Assert(got == want, "vote conflict predicate equals the specification")
}

func VH_C06_vote_symmetry() {
	a, _ := vhC06Vote("a", 2)
	b, _ := vhC06Vote("b", 2)
	da, db := &dsVote{a}, &dsVote{b}
	sym.Assert(db.IsConflictWith(da) == da.IsConflictWith(db), "vote conflict predicate is symmetric")
}

func VH_C06_vote_irreflexive() {
	a, _ := vhC06Vote("a", 3)
	da := &dsVote{a}
	sym.Assert(!da.IsConflictWith(da), "a vote never conflicts with itself")
	var p module.DoubleSignData = &dsProposal{NewProposalMessage()}
	sym.Assert(!da.IsConflictWith(p), "a vote never conflicts with a proposal")
}

func vhC06Proposal(tag string) *ProposalMessage {
	m := NewProposalMessage()
	m.Height = sym.I64(tag + ".height")
	m.Round = sym.I32(tag + ".round")
	m.POLRound = sym.I32(tag + ".pol")
	m.NID = sym.U32(tag + ".nid")
	m.BlockPartSetID = &PartSetID{Count: sym.U16(tag + ".parts"), Hash: sym.Bytes(tag+".psh", 1)}
	if sym.Bool(tag + ".signerB") {
		m._publicKey = vhC06Key(1)
	} else {
		m._publicKey = vhC06Key(0)
	}
	m._hash = sym.Bytes(tag+".hash", 1)
	return m
}

func VH_C06_proposal_predicate() {
	a := vhC06Proposal("a")
	b := vhC06Proposal("b")
	da, db := &dsProposal{a}, &dsProposal{b}
	want := sym.And(a.Height == b.Height, a.Round == b.Round,
		vhC06SameSigner(a._publicKey, b._publicKey),
		sym.Or(a.NID == 0, b.NID == 0, a.NID == b.NID),
		a._hash[0] != b._hash[0])
	got := da.IsConflictWith(db)
	if want {
		sym.Reach("conflict")
	}
	if sym.And(a.NID != 0, b.NID != 0, a.NID != b.NID) {
		sym.Reach("different-networks")
		sym.Assert(!got, "proposals from different networks are never a conflict")
	}
	sym.Assert(got == want, "proposal conflict predicate equals the specification")
}

func VH_C06_proposal_symmetry() {
	a := vhC06Proposal("a")
	b := vhC06Proposal("b")
	da, db := &dsProposal{a}, &dsProposal{b}
	sym.Assert(db.IsConflictWith(da) == da.IsConflictWith(db), "proposal conflict predicate is symmetric")
	sym.Assert(!da.IsConflictWith(da), "a proposal never conflicts with itself")
	var v module.DoubleSignData = &dsVote{newVoteMessage()}
	sym.Assert(!da.IsConflictWith(v), "a proposal never conflicts with a vote")
}

// real content hash: SHA3 (uninterpreted, collision-free) of the real encoding
// of the signed part; small field values so that encodings have one length
func VH_C06_vote_real_hash() {
	mk := func(tag string) *VoteMessage {
		m := newVoteMessage()
		m.Height = int64(sym.U8(tag+".height") & 0x7f)
		m.Round = int32(sym.U8(tag+".round") & 0x7f)
		m.Type = VoteType(sym.U8(tag+".type") & 1)
		m.Timestamp = int64(sym.U8(tag+".ts") & 0x7f)
		m.BlockID = sym.Bytes(tag+".bid", 1)
		sym.Assume(m.BlockID[0] < 0x80 && m.BlockID[0] != 0)
		psh := sym.Bytes(tag+".psh", 1)
		sym.Assume(psh[0] < 0x80 && psh[0] != 0)
		m.BlockPartSetIDAndNTSVoteCount = &PartSetIDAndAppData{CountWord: uint64(sym.U8(tag+".parts")&0x7f) | 1, Hash: psh}
		m._publicKey = vhC06Key(0)
		return m
	}
	a, b := mk("a"), mk("b")
	same := a.Height == b.Height && a.Round == b.Round && a.Type == b.Type && a.Timestamp == b.Timestamp &&
		a.BlockID[0] == b.BlockID[0] && a.BlockPartSetIDAndNTSVoteCount.CountWord == b.BlockPartSetIDAndNTSVoteCount.CountWord &&
		a.BlockPartSetIDAndNTSVoteCount.Hash[0] == b.BlockPartSetIDAndNTSVoteCount.Hash[0]
	got := (&dsVote{a}).IsConflictWith(&dsVote{b})
	if same {
		sym.Reach("identical")
		sym.Assert(!got, "identical votes are never a conflict")
	} else if a.Height == b.Height && a.Round == b.Round && a.Type == b.Type {
		sym.Reach("genuine")
		sym.Assert(got, "two different votes of one signer for the same height, round and type are a conflict")
	} else {
		sym.Assert(!got, "votes for different height, round or type are never a conflict")
	}
}

// dsmLog: evidence is returned only for pairs satisfying the predicate, and a
// second, different message for the same slot by the same signer is evidence
func VH_C06_dsmlog() {
	lg := makeDSMLog(1 << 20)
	a, nidA := vhC06Vote("a", 2)
	b, nidB := vhC06Vote("b", 2)
	r1 := lg.LogAndCheckVoteMessage(a)
	sym.Assert(r1 == nil, "first message is never evidence")
	r2 := lg.LogAndCheckVoteMessage(b)
	want := sym.And(a.Type == b.Type, a.Height == b.Height, a.Round == b.Round,
		vhC06SameSigner(a._publicKey, b._publicKey),
		sym.Or(nidA == 0, nidB == 0, nidA == nidB),
		a._hash[0] != b._hash[0])
	if r2 != nil {
		sym.Reach("evidence")
		sym.Assert(len(r2) == 2, "evidence is a pair")
		sym.Assert(want, "evidence is reported only for a genuine conflict")
	}
	if want {
		sym.Assert(r2 != nil, "a genuine conflict with the logged message is reported")
	}
}

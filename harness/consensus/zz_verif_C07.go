package consensus

// Harness for property C07, vote-list timestamp: the real
// blockCommitVoteList.Timestamp (with the real sort) returns the median of the
// vote timestamps, checked against a counting definition that does not sort.

import (
	"github.com/icon-project/goloop/zzverif/sym"
)

func VH_C07_median() {
	n := sym.Range("votes", 0, sym.Param("VOTES", 5))
	bvl := &blockCommitVoteList{}
	ts := make([]int64, n)
	for i := range ts {
		ts[i] = sym.I64("ts")
		// timestamps are microseconds since the epoch: far from the int64 limits
		sym.Assume(sym.And(ts[i] >= 0, ts[i] < 1<<62))
		bvl.Items = append(bvl.Items, blockCommitVoteItem{Timestamp: ts[i]})
	}
	r := bvl.Timestamp()
	if n == 0 {
		sym.Assert(r == 0, "an empty vote list has timestamp 0")
		return
	}
	// x is the k-th smallest (0-based) iff #(< x) <= k < #(<= x)
	kth := func(x int64, k int) bool {
		lt, le := 0, 0
		var ltc, lec []bool
		for _, t := range ts {
			ltc = append(ltc, t < x)
			lec = append(lec, t <= x)
		}
		_ = lt
		_ = le
		return sym.And(vhC07AtMost(ltc, k), vhC07AtLeast(lec, k+1))
	}
	if n%2 == 1 {
		sym.Reach("odd")
		sym.Assert(kth(r, n/2), "with an odd number of votes the timestamp is the middle vote timestamp")
		return
	}
	sym.Reach("even")
	// some pair (a, b) of vote timestamps are the two middle ones and r is their mean (rounded down)
	var cases []bool
	for i := range ts {
		for j := range ts {
			if i != j {
				cases = append(cases, sym.And(kth(ts[i], n/2-1), kth(ts[j], n/2), r == (ts[i]+ts[j])/2))
			}
		}
	}
	sym.Assert(sym.Or(cases...), "with an even number of votes the timestamp is the mean of the two middle vote timestamps")
}

// at most k of the conditions hold
func vhC07AtMost(cs []bool, k int) bool { return !vhC07AtLeast(cs, k+1) }

// at least k of the conditions hold (k small): disjunction over k-subsets
func vhC07AtLeast(cs []bool, k int) bool {
	if k <= 0 {
		return true
	}
	if len(cs) < k {
		return false
	}
	// either cs[0] and at least k-1 of the rest, or at least k of the rest
	return sym.Or(sym.And(cs[0], vhC07AtLeast(cs[1:], k-1)), vhC07AtLeast(cs[1:], k))
}

package calculator

// Harness for property C35 (rewards never exceed the term's reward budget):
// the real P-Rep and voter reward arithmetic of the IISS4 calculator over
// unbounded integers (math/big.Int modelled exactly by SMT integers).

import (
	"math/big"

	"github.com/icon-project/goloop/common"
	"github.com/icon-project/goloop/common/log"
	"github.com/icon-project/goloop/icon/icmodule"
	"github.com/icon-project/goloop/icon/iiss/icstage"
	"github.com/icon-project/goloop/icon/iiss/icutils"
	"github.com/icon-project/goloop/zzverif/sym"
)

func vhC35Addr(i int) *common.Address {
	return common.MustNewAddressFromString("hx" + "00000000000000000000000000000000000000" + string([]byte{'0' + byte(i/10), '0' + byte(i%10)}))
}

func vhC35NonNeg(name string) *big.Int {
	v := sym.BigZ(name)
	sym.Assume(v.Sign() >= 0)
	return v
}

func vhC35Status() icmodule.EnableStatus {
	switch sym.Choose("status", 3) {
	case 0:
		return icmodule.ESEnable
	case 1:
		return icmodule.ESDisableTemp
	default:
		return icmodule.ESUnjail
	}
}

// P-Rep side: for any accumulated powers, commission rates and statuses the
// commission + voter reward + wage of all P-Reps stay within the funds
func VH_C35_prep_budget() {
	n := sym.Param("PREPS", 3)
	offsetLimit := []int{43119, 99}[sym.Choose("term", 2)]
	pi := NewPRepInfo(icmodule.ToRate(5), n, offsetLimit, log.New())
	for i := 0; i < n; i++ {
		rate := sym.I64Z("rate")
		sym.Assume(sym.And(rate >= 0, rate <= 10000))
		p := NewPRep(vhC35Addr(i), vhC35Status(), vhC35NonNeg("delegated"), vhC35NonNeg("bonded"), icmodule.Rate(rate), true)
		p.accumulatedPower = vhC35NonNeg("accPower")
		p.accumulatedVoted = vhC35NonNeg("accVoted")
		p.rank = i
		pi.preps[icutils.ToKey(p.owner)] = p
		pi.rank = append(pi.rank, p)
	}
	pi.UpdateTotalAccumulatedPower()
	totalReward := vhC35NonNeg("totalReward")
	totalMinWage := vhC35NonNeg("totalMinWage")
	minBond := vhC35NonNeg("minBond")
	sym.Assert(pi.CalculateReward(totalReward, totalMinWage, minBond) == nil, "CalculateReward succeeds")
	period := pi.GetTermPeriod()
	fund := fundToPeriodIScore(totalReward, period)
	wageFund := fundToPeriodIScore(totalMinWage, period)
	sum := new(big.Int)
	wages := new(big.Int)
	for _, p := range pi.rank {
		sym.Assert(p.commission.Sign() >= 0, "a commission is never negative")
		sym.Assert(p.voterReward.Sign() >= 0, "a voter reward is never negative (the commission never exceeds the P-Rep's reward)")
		sum.Add(sum, p.commission)
		sum.Add(sum, p.voterReward)
		wages.Add(wages, p.wage)
		if !p.IsRewardable(n) {
			sym.Reach("not-rewardable")
			sym.Assert(p.commission.Sign() == 0 && p.voterReward.Sign() == 0 && p.wage.Sign() == 0, "a P-Rep that is not rewardable gets nothing")
		} else {
			sym.Reach("rewardable")
		}
	}
	sym.Assert(sum.Cmp(fund) <= 0, "commissions plus voter rewards of all P-Reps stay within the term's P-Rep reward fund")
	sym.Assert(wages.Cmp(wageFund) <= 0, "wages of all P-Reps stay within the term's wage fund")
}

// voter side: each voter's reward from a P-Rep is its share of that P-Rep's
// voter reward in proportion to its accumulated votes, and the voters of one
// P-Rep never get more than its voter reward
func VH_C35_voter_share() {
	pi := NewPRepInfo(icmodule.ToRate(5), 1, 43119, log.New())
	p := NewPRep(vhC35Addr(1), icmodule.ESEnable, vhC35NonNeg("delegated"), vhC35NonNeg("bonded"), 0, true)
	p.accumulatedPower = sym.BigZ("accPower")
	p.accumulatedVoted = sym.BigZ("accVoted")
	p.voterReward = vhC35NonNeg("voterReward")
	sym.Assume(sym.And(p.accumulatedPower.Sign() > 0, p.accumulatedVoted.Sign() > 0))
	p.rank = 0
	key := icutils.ToKey(p.owner)
	pi.preps[key] = p
	pi.rank = append(pi.rank, p)
	k := sym.Param("VOTERS", 3)
	total := new(big.Int)
	sumAv := new(big.Int)
	for j := 0; j < k; j++ {
		av := vhC35NonNeg("av")
		v := &Voter{owner: vhC35Addr(10 + j), accumulatedVotes: map[string]*big.Int{key: av}, log: log.New()}
		r := v.CalculateReward(pi)
		want := new(big.Int).Mul(av, p.voterReward)
		want.Div(want, p.accumulatedVoted)
		sym.Assert(r.Cmp(want) == 0, "a voter's reward is its proportional share floor(av * voterReward / accumulatedVoted)")
		total.Add(total, r)
		sumAv.Add(sumAv, av)
	}
	if sumAv.Cmp(p.accumulatedVoted) <= 0 {
		sym.Reach("consistent-votes")
		sym.Assert(total.Cmp(p.voterReward) <= 0, "the voters of a P-Rep together never get more than its voter reward")
	}
}

// both sides accumulate the same votes: what the voters accumulate towards a
// P-Rep over a term equals what the P-Rep accumulates as voted, for initial
// delegations and delegation-change events at arbitrary offsets
func VH_C35_accumulation() {
	offsetLimit := 43119
	pi := NewPRepInfo(0, 1, offsetLimit, log.New())
	addr := vhC35Addr(1)
	key := icutils.ToKey(addr)
	k := sym.Param("VOTERS2", 2)
	initial := make([]*big.Int, k)
	d0 := new(big.Int)
	for j := range initial {
		initial[j] = vhC35NonNeg("init")
		d0.Add(d0, initial[j])
	}
	p := pi.Add(addr, icmodule.ESEnable, d0, new(big.Int), 0, true)
	pi.Sort()
	pi.InitAccumulated()
	voters := make([]*Voter, k)
	for j := range voters {
		voters[j] = &Voter{owner: vhC35Addr(10 + j), accumulatedVotes: map[string]*big.Int{}, log: log.New()}
		voters[j].applyVoting(icstage.NewVote(addr, initial[j]), big.NewInt(pi.GetTermPeriod()))
	}
	ne := sym.Param("EVENTS", 2)
	for e := 0; e < ne; e++ {
		j := sym.Choose("who", k)
		amount := sym.BigZ("delta") // may be negative: delegation lowered
		off := sym.I64("offset")
		sym.Assume(sym.And(off >= 0, off <= int64(offsetLimit)))
		votes := icstage.VoteList{icstage.NewVote(addr, amount)}
		pi.ApplyVote(vtDelegate, votes, int(off))
		voters[j].ApplyEvent(NewVoteEvent(vtDelegate, votes, int(off)), offsetLimit-int(off))
	}
	sum := new(big.Int)
	for _, v := range voters {
		if av, ok := v.accumulatedVotes[key]; ok {
			sum.Add(sum, av)
		}
	}
	sym.Assert(sum.Cmp(p.AccumulatedVoted()) == 0, "the votes accumulated by the voters of a P-Rep add up to the P-Rep's accumulated voted")
	sym.Reach("accumulated")
}

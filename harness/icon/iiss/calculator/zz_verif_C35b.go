package calculator

// Harness for property C35, term level: the real IISS4 calculation steps
// (loadPRepInfo, processEvents incl. UpdateVoteInfo, processPrepReward,
// processVoterReward) over the real icstage / icreward states on an in-memory
// database.  Who votes for whom, which records exist at the start of the term
// and which vote events happen are harness choices (the trie keys are
// concrete); every amount is an unbounded symbolic integer.

import (
	"math/big"

	"github.com/icon-project/goloop/common"
	"github.com/icon-project/goloop/common/db"
	"github.com/icon-project/goloop/common/log"
	"github.com/icon-project/goloop/icon/icmodule"
	"github.com/icon-project/goloop/icon/iiss/icreward"
	"github.com/icon-project/goloop/icon/iiss/icstage"
	"github.com/icon-project/goloop/icon/iiss/icstate"
	"github.com/icon-project/goloop/icon/iiss/icutils"
	"github.com/icon-project/goloop/module"
	"github.com/icon-project/goloop/zzverif/sym"
)

type vhC35Credit struct {
	addr   string
	t      RewardType
	amount *big.Int
}

type vhC35Ctx struct {
	back    *icstage.Snapshot
	base    *icreward.Snapshot
	temp    *icreward.State
	stats   *Stats
	lg      log.Logger
	credits []vhC35Credit
}

func (c *vhC35Ctx) Back() *icstage.Snapshot  { return c.back }
func (c *vhC35Ctx) Base() *icreward.Snapshot { return c.base }
func (c *vhC35Ctx) Temp() *icreward.State    { return c.temp }
func (c *vhC35Ctx) Stats() *Stats            { return c.stats }
func (c *vhC35Ctx) Logger() log.Logger       { return c.lg }
func (c *vhC35Ctx) UpdateIScore(addr module.Address, reward *big.Int, t RewardType) error {
	c.credits = append(c.credits, vhC35Credit{icutils.ToKey(addr), t, reward})
	return nil
}

func vhC35Pos(name string) *big.Int {
	v := sym.BigZ(name)
	sym.Assume(v.Sign() > 0)
	return v
}

// One term.  VOTERS3 voters and one elected P-Rep (plus the votes of everybody
// else, an arbitrary amount).  Each voter starts the term with a delegation, a
// bond, both or neither, and up to EVENTS3 vote events (delegation or bond
// changes by any amount that keeps the vote non-negative, also down to
// nothing) happen in the term.
func VH_C35_term() { vhC35Term(sym.Param("VOTERS3", 2), sym.Param("EVENTS3", 1), false) }

// the same term with a P-Rep that registers during the term (smaller world otherwise)
func VH_C35_term_newcomer() { vhC35Term(1, sym.Param("EVENTS4", 0), true) }

func vhC35Term(nv, maxEvents int, joins bool) {
	lg := log.New()
	database := db.NewMapDB()
	stage := icstage.NewState(database)
	reward := icreward.NewState(database, nil)

	offsetLimit := 99
	rFund := icstate.NewRewardFund(icstate.RFVersion2)
	sym.Assert(rFund.SetIGlobal(vhC35NonNeg("iglobal")) == nil, "setup: iglobal")
	sym.Assert(rFund.SetAllocation(map[icstate.RFundKey]icmodule.Rate{
		icstate.KeyIprep:  icmodule.ToRate(77),
		icstate.KeyIwage:  icmodule.ToRate(13),
		icstate.KeyIcps:   icmodule.ToRate(10),
		icstate.KeyIrelay: icmodule.ToRate(0),
	}) == nil, "setup: allocation")
	sym.Assert(stage.AddGlobalV3(0, 0, offsetLimit, 1, icmodule.ToRate(5), rFund, vhC35NonNeg("minBond")) == nil, "setup: global")

	prep := vhC35Addr(1)
	voters := make([]*common.Address, nv)
	dlg := make([]*big.Int, nv) // current delegation to the P-Rep (nil: none)
	bnd := make([]*big.Int, nv)
	sumD, sumB := new(big.Int), new(big.Int)
	for j := range voters {
		voters[j] = vhC35Addr(10 + j)
		kind := sym.Choose("records", 4) // bit 0: delegation, bit 1: bond
		if kind&1 != 0 {
			dlg[j] = vhC35Pos("delegation")
			sumD.Add(sumD, dlg[j])
			sym.Assert(reward.SetDelegating(voters[j], &icreward.Delegating{
				Delegations: icstate.Delegations{icstate.NewDelegation(prep, dlg[j])},
			}) == nil, "setup: delegating")
		}
		if kind&2 != 0 {
			bnd[j] = vhC35Pos("bond")
			sumB.Add(sumB, bnd[j])
			sym.Assert(reward.SetBonding(voters[j], &icreward.Bonding{
				Bonds: icstate.Bonds{icstate.NewBond(prep, bnd[j])},
			}) == nil, "setup: bonding")
		}
	}
	// the P-Rep's record holds the votes of these voters and of everybody else
	voted := icreward.NewVotedV2()
	voted.SetStatus(icmodule.ESEnable)
	rate := sym.I64Z("rate")
	sym.Assume(sym.And(rate >= 0, rate <= 10000))
	voted.SetCommissionRate(icmodule.Rate(rate))
	voted.SetDelegated(new(big.Int).Add(sumD, vhC35NonNeg("otherDelegated")))
	voted.SetBonded(new(big.Int).Add(sumB, vhC35NonNeg("otherBonded")))
	sym.Assert(reward.SetVoted(prep, voted) == nil, "setup: voted")
	sym.Assert(reward.SetDSA(icreward.NewDSA().Updated(1)) == nil, "setup: dsa")
	sym.Assert(reward.SetPublicKey(prep, icreward.NewPublicKey().Updated(1)) == nil, "setup: public key")

	offsets := []int{0, 10, offsetLimit}
	// a P-Rep that is not in the records of the start of the term may register during the term
	// and receive a bond and a delegation in that same term; it is not elected in this term
	newcomer := vhC35Addr(2)
	if joins {
		sym.Reach("newcomer")
		_, err := stage.AddEventEnable(0, newcomer, icmodule.ESEnable)
		sym.Assert(err == nil, "setup: enable event")
		backer := vhC35Addr(20)
		oi := sym.Choose("newcomer_offset", len(offsets))
		_, _, err = stage.AddEventBond(offsets[oi], backer, icstage.VoteList{icstage.NewVote(newcomer, vhC35Pos("newcomerBond"))})
		sym.Assert(err == nil, "setup: bond event for the newcomer")
		if sym.Bool("newcomer_delegated") {
			_, _, err = stage.AddEventDelegation(offsets[oi], backer, icstage.VoteList{icstage.NewVote(newcomer, vhC35Pos("newcomerDelegation"))})
			sym.Assert(err == nil, "setup: delegation event for the newcomer")
		}
	}
	// vote events of the term, as the state machine records them: the new vote is never negative
	ne := sym.Range("events", 0, maxEvents)
	lastOff := 0
	for e := 0; e < ne; e++ {
		j := sym.Choose("who", nv)
		oi := sym.Choose("offset", len(offsets))
		sym.Assume(offsets[oi] >= lastOff)
		lastOff = offsets[oi]
		delta := sym.BigZ("delta")
		sym.Assume(delta.Sign() != 0)
		bond := sym.Bool("bond_event")
		cur := dlg[j]
		if bond {
			cur = bnd[j]
		}
		if cur == nil {
			cur = new(big.Int)
		}
		nw := new(big.Int).Add(cur, delta)
		sym.Assume(nw.Sign() >= 0)
		votes := icstage.VoteList{icstage.NewVote(prep, delta)}
		var err error
		if bond {
			bnd[j] = nw
			_, _, err = stage.AddEventBond(offsets[oi], voters[j], votes)
		} else {
			dlg[j] = nw
			_, _, err = stage.AddEventDelegation(offsets[oi], voters[j], votes)
		}
		sym.Assert(err == nil, "setup: event")
	}

	ctx := &vhC35Ctx{lg: lg, stats: NewStats()}
	ctx.back = stage.GetSnapshot()
	ctx.temp = reward
	ctx.base = reward.GetSnapshot()

	r, err := NewIISS4Reward(ctx)
	sym.Assert(err == nil && r != nil, "the calculator is created")
	sym.Assert(r.loadPRepInfo() == nil, "loadPRepInfo")
	sym.Assert(r.processEvents() == nil, "processEvents")
	sym.Assert(r.processPrepReward() == nil, "processPrepReward")
	sym.Assert(r.processVoterReward() == nil, "processVoterReward")

	// (1) nobody is rewarded twice as a voter
	seen := map[string]bool{}
	voterSum := new(big.Int)
	total := new(big.Int)
	for _, c := range ctx.credits {
		sym.Assert(c.amount.Sign() >= 0, "no reward is negative")
		total.Add(total, c.amount)
		if c.t == RTVoter {
			sym.Assert(!seen[c.addr], "a voter is rewarded once per term")
			seen[c.addr] = true
			voterSum.Add(voterSum, c.amount)
		}
	}
	// (2) the voters together stay within the P-Rep's voter reward
	p := r.pi.GetPRep(icutils.ToKey(prep))
	sym.Assert(p != nil, "the P-Rep is loaded")
	if p.IsRewardable(r.pi.ElectedPRepCount()) {
		sym.Reach("rewardable-term")
		sym.Assert(voterSum.Cmp(p.VoterReward()) <= 0, "the voters of a P-Rep together never get more than its voter reward")
	} else {
		sym.Assert(voterSum.Sign() == 0, "nothing is paid for a P-Rep that is not rewardable")
	}
	// (3) everything credited in the term stays within the term's budget
	g := r.g.GetV3()
	period := r.pi.GetTermPeriod()
	budget := fundToPeriodIScore(g.GetRewardFundAmountByKey(icstate.KeyIprep), period)
	budget.Add(budget, fundToPeriodIScore(g.GetRewardFundAmountByKey(icstate.KeyIwage), period))
	sym.Assert(total.Cmp(budget) <= 0, "everything credited in the term stays within the term's P-Rep and wage funds")
	// (4) the end-of-term records are the start-of-term records plus the events
	for j := range voters {
		d, err := ctx.temp.GetDelegating(voters[j])
		sym.Assert(err == nil, "delegating readable")
		want := dlg[j]
		if want == nil {
			want = new(big.Int)
		}
		got := new(big.Int)
		if d != nil {
			for _, x := range d.Delegations {
				got.Add(got, x.Amount())
			}
		}
		sym.Assert(got.Cmp(want) == 0, "the end-of-term delegation record is the start-of-term record plus the events")
	}
	if ne > 0 {
		sym.Reach("with-events")
	}
}

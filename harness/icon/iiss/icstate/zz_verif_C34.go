package icstate

// Harness for property C34 (staking keeps stake accounting consistent), at
// the account level: one step of the real AccountState / Unstakes code from
// an arbitrary valid account, with unbounded integers for the amounts.
//
// Representation invariant of an account's unstake slots (established by
// the code itself, checked to be preserved): every slot value > 0, slots
// sorted by expire height (ascending, not necessarily strictly), at most
// slotMax slots.  The unstaking timer of height h holds the account iff the
// account has a slot expiring at h; the job list returned by a step is applied
// to that relation and must re-establish it.

import (
	"math/big"

	"github.com/icon-project/goloop/icon/icmodule"
	"github.com/icon-project/goloop/zzverif/sym"
)

func vhC34Account(maxSlots int) (*AccountState, []*big.Int, []int64) {
	ia := newAccountStateWithSnapshot(nil)
	stake := sym.BigZ("stake")
	sym.Assume(stake.Sign() >= 0)
	ia.stake = stake
	n := sym.Len("slots", maxSlots)
	var vals []*big.Int
	var exps []int64
	var us Unstakes
	for i := 0; i < n; i++ {
		v := sym.BigZ("uv")
		e := sym.I64("ue")
		sym.Assume(sym.And(v.Sign() > 0, e >= 0))
		if i > 0 {
			sym.Assume(exps[i-1] <= e)
		}
		vals = append(vals, v)
		exps = append(exps, e)
		us = append(us, NewUnstake(v, e))
	}
	ia.unstakes = us
	return ia, vals, exps
}

func vhC34Sum(vs []*big.Int) *big.Int {
	s := new(big.Int)
	for _, v := range vs {
		s.Add(s, v)
	}
	return s
}

// has(h) after applying the timer jobs, starting from "some slot expires at h"
func vhC34TimerAfter(h int64, preExp []int64, tl []TimerJobInfo) bool {
	var pre []bool
	for _, e := range preExp {
		pre = append(pre, e == h)
	}
	has := sym.Or(pre...)
	for _, j := range tl {
		hit := j.Height == h
		has = sym.Or(sym.And(hit, j.Type == JobTypeAdd), sym.And(!hit, has))
	}
	return has
}

func vhC34SlotAt(h int64, us Unstakes) bool {
	var c []bool
	for _, u := range us {
		c = append(c, u.GetExpire() == h)
	}
	return sym.Or(c...)
}

func vhC34CheckSlots(ia *AccountState, slotMax int) {
	us := ia.UnStakes()
	sym.Assert(len(us) <= slotMax, "the number of unstake slots stays within the maximum")
	for i, u := range us {
		sym.Assert(u.GetValue().Sign() > 0, "every unstake slot holds a positive amount")
		if i > 0 {
			sym.Assert(us[i-1].GetExpire() <= u.GetExpire(), "unstake slots stay sorted by expire height")
		}
	}
}

// the account part of setStake (iiss.ExtensionStateImpl.SetStake): adjust the
// unstake slots by the stake change, then set the stake
func VH_C34_set_stake() {
	slotMax := sym.Range("slotMax", 1, sym.Param("SLOTS", 3))
	ia, vals, exps := vhC34Account(slotMax)
	revision := icmodule.LatestRevision
	v := sym.BigZ("newStake")
	sym.Assume(v.Sign() >= 0)
	eh := sym.I64("expireHeight")
	sym.Assume(eh >= 0)
	stake0 := ia.Stake()
	u0 := vhC34Sum(vals)
	total0 := ia.GetTotalStake()
	sym.Assert(total0.Cmp(new(big.Int).Add(stake0, u0)) == 0, "total stake is stake plus unstaking")

	stakeInc := new(big.Int).Sub(v, stake0)
	var tl []TimerJobInfo
	var err error
	if stakeInc.Sign() >= 0 {
		sym.Reach("stake-up")
		tl, err = ia.DecreaseUnstake(stakeInc, eh, revision)
	} else {
		sym.Reach("stake-down")
		tl, err = ia.IncreaseUnstake(new(big.Int).Abs(stakeInc), eh, slotMax, revision)
	}
	sym.Assert(err == nil, "the unstake slots are updated without error")
	sym.Assert(ia.SetStake(v) == nil, "SetStake succeeds")

	total1 := ia.GetTotalStake()
	u1 := ia.GetUnstakeAmount()
	if stakeInc.Sign() < 0 {
		sym.Assert(total1.Cmp(total0) == 0, "lowering the stake moves exactly that amount into unstaking (stake + unstaking unchanged)")
	} else {
		// raising the stake first takes ICX back out of unstaking, the rest comes from the balance
		used := new(big.Int).Sub(u0, u1)
		sym.Assert(used.Sign() >= 0 && used.Cmp(stakeInc) <= 0, "raising the stake never takes more out of unstaking than the increase")
		if u1.Sign() > 0 {
			sym.Assert(used.Cmp(stakeInc) == 0, "raising the stake is served from unstaking first")
		}
		diff := new(big.Int).Sub(total1, total0)
		sym.Assert(diff.Cmp(new(big.Int).Sub(stakeInc, used)) == 0 && diff.Sign() >= 0, "the amount to withdraw from the balance is the increase not served from unstaking")
	}
	sym.Assert(ia.Stake().Cmp(v) == 0, "the stake is the requested one")
	vhC34CheckSlots(ia, slotMax)

	// the unstaking timers follow the slots: for every height involved
	hs := append(append([]int64{}, exps...), eh)
	var dups []bool
	for i := range exps {
		for j := i + 1; j < len(exps); j++ {
			dups = append(dups, exps[i] == exps[j])
		}
	}
	if sym.Or(dups...) {
		// two slots of the account expire at the same height (reachable: two
		// setStake calls lowering the stake in one block)
		sym.Reach("same-expire-slots")
		for _, h := range hs {
			sym.Assert(vhC34TimerAfter(h, exps, tl) == vhC34SlotAt(h, ia.UnStakes()), "with two slots expiring at the same height the account stays scheduled there while one of them remains")
		}
		return
	}
	for _, h := range hs {
		sym.Assert(vhC34TimerAfter(h, exps, tl) == vhC34SlotAt(h, ia.UnStakes()), "the account is scheduled at a height exactly when it has an unstake slot expiring there")
	}
}

// expiry of a lock period: the expired amount is returned once, exactly
func VH_C34_remove_unstake() {
	ia, vals, exps := vhC34Account(sym.Param("SLOTS", 3))
	h := sym.I64("height")
	total0 := ia.GetTotalStake()
	want := new(big.Int)
	var keepV []*big.Int
	var keepE []int64
	any := false
	for i := range vals {
		if exps[i] == h {
			want.Add(want, vals[i])
			any = true
		} else {
			keepV = append(keepV, vals[i])
			keepE = append(keepE, exps[i])
		}
	}
	ra, err := ia.RemoveUnstake(h)
	if !any {
		sym.Reach("no-slot")
		sym.Assert(err != nil, "nothing is returned at a height where no lock period ends")
		sym.Assert(ia.GetTotalStake().Cmp(total0) == 0, "a refused expiry changes nothing")
		return
	}
	sym.Reach("expired")
	sym.Assert(err == nil, "an ended lock period is processed")
	sym.Assert(ra.Cmp(want) == 0, "exactly the amount whose lock period ended is returned")
	sym.Assert(new(big.Int).Add(ia.GetTotalStake(), ra).Cmp(total0) == 0, "stake + unstaking decreases by exactly the returned amount")
	us := ia.UnStakes()
	sym.Assert(len(us) == len(keepV), "exactly the expired slots are removed")
	for i := range us {
		if i < len(keepV) {
			sym.Assert(us[i].GetValue().Cmp(keepV[i]) == 0 && us[i].GetExpire() == keepE[i], "the other slots are untouched")
		}
	}
	_, err = ia.RemoveUnstake(h)
	sym.Assert(err != nil, "the same lock period cannot be paid out twice")
}

// slashing and direct stake changes never make the stake negative
func VH_C34_stake_nonnegative() {
	ia, _, _ := vhC34Account(1)
	amount := sym.BigZ("amount")
	stake0 := ia.Stake()
	err := ia.SlashStake(amount)
	if err == nil {
		sym.Reach("slashed")
		sym.Assert(ia.Stake().Sign() >= 0, "the stake never becomes negative")
		sym.Assert(new(big.Int).Add(ia.Stake(), amount).Cmp(stake0) == 0, "slashing removes exactly the slashed amount")
	} else {
		sym.Reach("refused")
		sym.Assert(ia.Stake().Cmp(stake0) == 0, "a refused slash changes nothing")
	}
}

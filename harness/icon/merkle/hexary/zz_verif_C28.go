package hexary

// Harness for property C28 (the hexary block-hash accumulator is
// deterministic, provable and rewindable): the real accumulator, merkle tree
// and node code over the real map database; the accumulated hashes are
// symbolic 32-byte values, SHA3 is uninterpreted and collision-free; the
// length n, the key and the rewind point are case split.

import (
	"bytes"

	"github.com/icon-project/goloop/common/db"
	"github.com/icon-project/goloop/zzverif/sym"
)

func vhC28Buckets() (db.Database, db.Bucket, db.Bucket) {
	d := db.NewMapDB()
	tb, err := d.GetBucket("T")
	sym.Assert(err == nil, "bucket")
	ab, err := d.GetBucket("A")
	sym.Assert(err == nil, "bucket")
	return d, tb, ab
}

func vhC28Items(n int) [][]byte {
	items := make([][]byte, n)
	for i := range items {
		items[i] = sym.Bytes("h", hashLen)
	}
	return items
}

func vhC28Accumulate(items [][]byte) (Accumulator, db.Bucket, db.Bucket) {
	_, tb, ab := vhC28Buckets()
	acc, err := NewAccumulator(tb, ab, "")
	sym.Assert(err == nil, "NewAccumulator succeeds")
	for i, h := range items {
		sym.Assert(acc.Add(h) == nil, "Add succeeds")
		sym.Assert(acc.Len() == int64(i+1), "Len counts the added hashes")
	}
	return acc, tb, ab
}

func vhC28SameHeader(a, b *MerkleHeader) bool {
	return a.Leaves == b.Leaves && bytes.Equal(a.RootHash, b.RootHash)
}

// the header is determined by the sequence alone: accumulating in one go, or
// stopping anywhere, re-opening the accumulator from its buckets and going on
func VH_C28_deterministic() {
	n := sym.Range("n", 1, sym.Param("N", 18))
	items := vhC28Items(n)
	acc, _, _ := vhC28Accumulate(items)
	h1 := acc.GetMerkleHeader()
	sym.Assert(h1.Leaves == int64(n), "the header carries the number of leaves")
	// GetMerkleHeader does not disturb the accumulator
	h1b := acc.GetMerkleHeader()
	sym.Assert(vhC28SameHeader(h1, h1b), "asking for the header twice gives the same header")
	j := sym.Choose("reopen_after", n+1)
	_, tb, ab := vhC28Buckets()
	acc2, err := NewAccumulator(tb, ab, "")
	sym.Assert(err == nil, "NewAccumulator succeeds")
	for i := 0; i < j; i++ {
		sym.Assert(acc2.Add(items[i]) == nil, "Add succeeds")
	}
	_ = acc2.GetMerkleHeader()
	acc3, err := NewAccumulator(tb, ab, "") // re-opened: state comes from the bucket
	sym.Assert(err == nil, "re-opening succeeds")
	sym.Assert(acc3.Len() == int64(j), "the re-opened accumulator has the persisted length")
	for i := j; i < n; i++ {
		sym.Assert(acc3.Add(items[i]) == nil, "Add after re-opening succeeds")
	}
	h3 := acc3.GetMerkleHeader()
	sym.Assert(vhC28SameHeader(h1, h3), "the merkle header is determined by the sequence of hashes alone")
	hf, err := acc3.Finalize()
	sym.Assert(err == nil && vhC28SameHeader(hf, h1), "Finalize reports the same header")
	sym.Reach("deterministic")
}

// every added hash has a proof that the merkle tree accepts against the
// header; an altered hash or an altered proof is rejected
func VH_C28_proofs() {
	n := sym.Range("n", 1, sym.Param("N", 18))
	items := vhC28Items(n)
	acc, tb, _ := vhC28Accumulate(items)
	hd, err := acc.Finalize()
	sym.Assert(err == nil, "Finalize succeeds")
	mt, err := NewMerkleTree(tb, hd, 0)
	sym.Assert(err == nil, "NewMerkleTree succeeds")
	key := sym.Choose("key", n)
	proof, err := mt.Prove(int64(key), 0)
	sym.Assert(err == nil, "every added hash has a proof")
	_, vb, _ := vhC28Buckets()
	verifier, err := NewMerkleTree(vb, hd, 0)
	sym.Assert(err == nil, "NewMerkleTree succeeds")
	switch sym.Choose("case", 3) {
	case 0:
		sym.Reach("genuine")
		sym.Assert(verifier.Add(int64(key), items[key], proof) == nil, "the merkle tree accepts the proof of an added hash against the header")
	case 1:
		sym.Reach("altered-hash")
		other := sym.Bytes("other", hashLen)
		sym.Assume(!bytes.Equal(other, items[key]))
		sym.Assert(verifier.Add(int64(key), other, proof) != nil, "an altered hash is rejected")
	default:
		if len(proof) == 0 {
			return
		}
		sym.Reach("altered-proof")
		e := sym.Choose("elem", len(proof))
		pos := int(sym.U16("pos")) // a symbolic position: one query covers every byte of the element
		sym.Assume(pos < len(proof[e]))
		mask := sym.U8("mask")
		sym.Assume(mask != 0)
		bad := make([][]byte, len(proof))
		for i := range proof {
			bad[i] = append([]byte{}, proof[i]...)
		}
		bad[e][pos] ^= mask
		sym.Assert(verifier.Add(int64(key), items[key], bad) != nil, "an altered proof is rejected")
	}
}

// rewinding to any shorter length yields exactly the header of accumulating only that prefix
func VH_C28_rewind() {
	n := sym.Range("n", 1, sym.Param("N", 18))
	items := vhC28Items(n)
	acc, _, _ := vhC28Accumulate(items)
	l := sym.Choose("rewind_to", n+1)
	sym.Assert(acc.SetLen(int64(l)) == nil, "SetLen to a length not beyond Len succeeds")
	sym.Assert(acc.Len() == int64(l), "Len follows SetLen")
	sym.Assert(acc.SetLen(int64(l+1)) != nil, "SetLen beyond Len is refused")
	want, _, _ := vhC28Accumulate(items[:l])
	sym.Assert(vhC28SameHeader(acc.GetMerkleHeader(), want.GetMerkleHeader()), "the rewound accumulator has the header of the prefix")
	// and it keeps accumulating like the prefix accumulator
	x := sym.Bytes("next", hashLen)
	sym.Assert(acc.Add(x) == nil && want.Add(x) == nil, "Add after rewinding succeeds")
	sym.Assert(vhC28SameHeader(acc.GetMerkleHeader(), want.GetMerkleHeader()), "appending after a rewind behaves like appending to the prefix")
	sym.Reach("rewound")
}

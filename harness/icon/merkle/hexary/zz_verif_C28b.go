package hexary

// C28, continued: a header handed out by Finalize / GetMerkleHeader is a value
// of its own - accumulating further hashes never changes a header obtained
// earlier (it stays the header of the prefix it was made for).

import (
	"bytes"

	"github.com/icon-project/goloop/zzverif/sym"
)

func VH_C28_header_is_stable() {
	n := sym.Range("n", 1, sym.Param("N", 18))
	items := vhC28Items(n)
	k := sym.Range("finalized_at", 1, n)
	_, tb, ab := vhC28Buckets()
	acc, err := NewAccumulator(tb, ab, "")
	sym.Assert(err == nil, "NewAccumulator succeeds")
	var kept, kept2 *MerkleHeader
	var copy1, copy2 []byte
	for i, h := range items {
		sym.Assert(acc.Add(h) == nil, "Add succeeds")
		if i+1 == k {
			kept, err = acc.Finalize()
			sym.Assert(err == nil, "Finalize succeeds")
			copy1 = append([]byte{}, kept.RootHash...)
			kept2 = acc.GetMerkleHeader()
			copy2 = append([]byte{}, kept2.RootHash...)
		}
	}
	sym.Assert(bytes.Equal(kept.RootHash, copy1) && kept.Leaves == int64(k), "a header returned by Finalize is not changed by later additions")
	sym.Assert(bytes.Equal(kept2.RootHash, copy2) && kept2.Leaves == int64(k), "a header returned by GetMerkleHeader is not changed by later additions")
	sym.Reach("stable")
}

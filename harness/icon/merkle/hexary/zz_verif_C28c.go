package hexary

// C28, continued: rewinding and then accumulating OTHER hashes up to a length
// at which the header had been asked before (the importer's call pattern)
// gives the header of the new sequence - the header is determined by the
// sequence alone, not by what was accumulated and abandoned earlier.

import (
	"github.com/icon-project/goloop/zzverif/sym"
)

func VH_C28_rewind_fork() {
	n := sym.Range("n", 1, sym.Param("NFORK", 6))
	items := vhC28Items(n)
	acc, _, _ := vhC28Accumulate(items)
	if sym.Bool("header_asked_before") {
		acc.GetMerkleHeader()
	}
	l := sym.Choose("rewind_to", n)
	sym.Assert(acc.SetLen(int64(l)) == nil, "SetLen to a shorter length succeeds")
	if sym.Bool("header_asked_after_rewind") {
		acc.GetMerkleHeader()
	}
	// another branch: new hashes up to the old length (and one beyond)
	fork := append([][]byte{}, items[:l]...)
	more := n - l + sym.Choose("beyond", 2)
	for i := 0; i < more; i++ {
		x := sym.Bytes("fork", hashLen)
		fork = append(fork, x)
		sym.Assert(acc.Add(x) == nil, "Add after rewinding succeeds")
		if len(fork) == n {
			sym.Reach("same-length-again")
		}
	}
	want, _, _ := vhC28Accumulate(fork)
	sym.Assert(vhC28SameHeader(acc.GetMerkleHeader(), want.GetMerkleHeader()), "after a rewind and other hashes the header is that of the new sequence")
	hdr, err := acc.Finalize()
	wantHdr, err2 := want.Finalize()
	sym.Assert(err == nil && err2 == nil && vhC28SameHeader(hdr, wantHdr), "and so is the finalized header")
}

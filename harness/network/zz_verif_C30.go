package network

// Harness for property C30 (P2P packet framing round-trips and detects
// corruption).  The real Packet.WriteTo/ReadFrom, PacketWriter and
// PacketReader run over an in-memory stream that is delivered in two chunks
// split at an arbitrary point.  FNV-1a is modelled as xor followed by an
// uninterpreted bijection (the multiplication by the odd FNV prime); that
// the real hash/fnv step is injective in state and in data is checked on the
// real code in VH_C30_fnv_step.

import (
	"bytes"
	"encoding"
	"errors"
	"hash/fnv"
	"io"

	"github.com/icon-project/goloop/module"
	"github.com/icon-project/goloop/zzverif/sym"
)

type vhC30Stream struct {
	buf   []byte
	split int // first Read returns at most this many bytes (if > 0)
	reads int
}

func (s *vhC30Stream) Write(b []byte) (int, error) {
	s.buf = append(s.buf, b...)
	return len(b), nil
}

func (s *vhC30Stream) Read(b []byte) (int, error) {
	if len(s.buf) == 0 {
		return 0, io.EOF
	}
	n := len(b)
	if n > len(s.buf) {
		n = len(s.buf)
	}
	if s.reads == 0 && s.split > 0 && n > s.split {
		n = s.split
	}
	s.reads++
	copy(b, s.buf[:n])
	s.buf = s.buf[n:]
	return n, nil
}

type vhC30Fields struct {
	pi, spi   uint16
	src       []byte
	dest, ttl byte
	payload   []byte
	hint      byte
	ext       []byte
}

func vhC30Packet(tag string, maxPayload, maxExt int) (*Packet, *vhC30Fields) {
	f := &vhC30Fields{
		pi:      sym.U16(tag + "pi"),
		spi:     sym.U16(tag + "spi"),
		src:     sym.Bytes(tag+"src", peerIDSize),
		dest:    sym.U8(tag + "dest"),
		ttl:     sym.U8(tag + "ttl"),
		payload: sym.Bytes(tag+"payload", sym.Len(tag+"plen", maxPayload)),
		ext:     sym.Bytes(tag+"ext", sym.Len(tag+"elen", maxExt)),
	}
	f.hint = sym.U8(tag + "hint")
	sym.Assume(f.hint <= packetExtendMaxHint)
	pkt := NewPacket(module.ProtocolInfo(f.pi), module.ProtocolInfo(f.spi), f.payload)
	pkt.src = NewPeerID(f.src)
	pkt.dest = f.dest
	pkt.ttl = f.ttl
	pkt.extendInfo = newPacketExtendInfo(f.hint, len(f.ext))
	pkt.ext = f.ext
	return pkt, f
}

func vhC30Same(p *Packet, f *vhC30Fields) {
	sym.Assert(sym.And(p.protocol.Uint16() == f.pi, p.subProtocol.Uint16() == f.spi), "protocol and sub-protocol are read back")
	sym.Assert(p.src != nil && bytes.Equal(p.src.Bytes(), f.src), "source is read back")
	sym.Assert(sym.And(p.dest == f.dest, p.ttl == f.ttl), "destination and TTL are read back")
	sym.Assert(int(p.lengthOfPayload) == len(f.payload) && bytes.Equal(p.payload, f.payload), "payload is read back")
	sym.Assert(p.extendInfo.hint() == f.hint && p.extendInfo.len() == len(f.ext), "extension info is read back")
	if len(f.ext) > 0 {
		sym.Assert(bytes.Equal(p.ext, f.ext), "extension bytes are read back")
	}
}

// two packets written back to back are read back equal however the stream is chunked
func VH_C30_roundtrip() {
	st := &vhC30Stream{}
	pw := NewPacketWriter(st)
	p1, f1 := vhC30Packet("a_", sym.Param("PAYLOAD", 2), sym.Param("EXT", 1))
	p2, f2 := vhC30Packet("b_", sym.Param("PAYLOAD", 2), sym.Param("EXT", 1))
	sym.Assert(pw.WritePacket(p1) == nil, "first packet is written")
	sym.Assert(pw.WritePacket(p2) == nil, "second packet is written")
	total := len(st.buf)
	sym.Assert(total == 2*(packetHeaderSize+packetFooterSize)+len(f1.payload)+len(f2.payload)+len(f1.ext)+len(f2.ext), "the stream holds exactly the two frames")
	st.split = sym.Range("split", 1, total)
	pr := NewPacketReader(st)
	r1, err := pr.ReadPacket()
	sym.Assert(err == nil, "first packet is read")
	if err == nil {
		vhC30Same(r1, f1)
	}
	r2, err := pr.ReadPacket()
	sym.Assert(err == nil, "second packet is read")
	if err == nil {
		vhC30Same(r2, f2)
	}
	_, err = pr.ReadPacket()
	sym.Assert(err != nil, "nothing follows the second packet")
	sym.Reach("read-both")
}

// a single altered byte of the header (other than the length field), of the
// payload or of the stored hash makes ReadFrom fail
func VH_C30_corrupt() {
	st := &vhC30Stream{}
	pw := NewPacketWriter(st)
	p1, f1 := vhC30Packet("a_", sym.Param("PAYLOAD", 2), 0)
	sym.Assert(pw.WritePacket(p1) == nil, "packet is written")
	lenOff := packetHeaderSize - 4
	hashEnd := packetHeaderSize + len(f1.payload) + 8
	pos := sym.Range("pos", 0, hashEnd-1)
	if pos >= lenOff && pos < packetHeaderSize {
		return // the length field: outside the claim (changes the framing)
	}
	mask := sym.U8("mask")
	sym.Assume(mask != 0)
	st.buf[pos] ^= mask
	switch {
	case pos < lenOff:
		sym.Reach("header-byte")
	case pos < packetHeaderSize+len(f1.payload):
		sym.Reach("payload-byte")
	default:
		sym.Reach("hash-byte")
	}
	pr := NewPacketReader(st)
	_, err := pr.ReadPacket()
	sym.Assert(err != nil, "a packet with one altered header, payload or hash byte is rejected")
}

// an over-long payload length is rejected before anything is allocated for it
func VH_C30_length_limit() {
	st := &vhC30Stream{}
	hdr := sym.Bytes("hdr", packetHeaderSize)
	st.buf = append(st.buf, hdr...)
	l := uint32(hdr[26])<<24 | uint32(hdr[27])<<16 | uint32(hdr[28])<<8 | uint32(hdr[29])
	sym.Assume(sym.Or(l <= 1, l > DefaultPacketPayloadMax)) // in-range lengths above 1 only allocate and wait for data
	p := &Packet{}
	_, err := p.ReadFrom(st)
	if l > DefaultPacketPayloadMax {
		sym.Reach("too-long")
		sym.Assert(err != nil, "a payload length beyond the maximum is rejected")
	}
}

// the real hash/fnv code: one step is injective in the state and in the data byte
func VH_C30_fnv_step() {
	sym.Option("fnv.real", true)
	s1 := sym.Bytes("s1", 8)
	s2 := sym.Bytes("s2", 8)
	c1 := sym.U8("c1")
	c2 := sym.U8("c2")
	h1, h2 := fnv.New64a(), fnv.New64a()
	pre := []byte{'f', 'n', 'v', 0x04}
	e1 := h1.(encoding.BinaryUnmarshaler).UnmarshalBinary(append(append([]byte{}, pre...), s1...))
	e2 := h2.(encoding.BinaryUnmarshaler).UnmarshalBinary(append(append([]byte{}, pre...), s2...))
	sym.Assert(e1 == nil && e2 == nil, "fnv state is restored")
	h1.Write([]byte{c1})
	h2.Write([]byte{c2})
	sameState := bytes.Equal(s1, s2)
	sym.Assert(sym.Implies(sym.And(!sameState, c1 == c2), h1.Sum64() != h2.Sum64()), "fnv step: different states stay different under the same byte")
	sym.Assert(sym.Implies(sym.And(sameState, c1 != c2), h1.Sum64() != h2.Sum64()), "fnv step: different bytes give different states from the same state")
	sym.Assert(sym.Implies(sym.And(sameState, c1 == c2), h1.Sum64() == h2.Sum64()), "fnv step is a function")
}

var _ = errors.New

package network

// C30, continued: the stream is delivered in many small reads (every Read
// returns at most CHUNK bytes), so that single fields arrive in three or more
// pieces.

import (
	"io"

	"github.com/icon-project/goloop/zzverif/sym"
)

type vhC30Trickle struct {
	buf   []byte
	chunk int
}

func (s *vhC30Trickle) Read(b []byte) (int, error) {
	if len(s.buf) == 0 {
		return 0, io.EOF
	}
	n := len(b)
	if n > s.chunk {
		n = s.chunk
	}
	if n > len(s.buf) {
		n = len(s.buf)
	}
	copy(b, s.buf[:n])
	s.buf = s.buf[n:]
	return n, nil
}

func VH_C30_trickle() {
	st := &vhC30Stream{}
	pw := NewPacketWriter(st)
	p1, f1 := vhC30Packet("a_", sym.Param("PAYLOAD", 2), sym.Param("EXT", 1))
	sym.Assert(pw.WritePacket(p1) == nil, "packet is written")
	chunk := 1 + sym.Choose("chunk", sym.Param("CHUNKS", 4))
	// read without the buffered reader in between, so that every field is filled by several reads
	p := &Packet{}
	_, err := p.ReadFrom(&vhC30Trickle{buf: st.buf, chunk: chunk})
	sym.Assert(err == nil, "a packet delivered a few bytes at a time is read")
	if err == nil {
		vhC30Same(p, f1)
	}
	sym.Reach("trickled")
}

package network

// Harness for property C31 (the encrypted peer channel is a faithful byte
// stream).  The AEAD is an ideal one plugged in through the cipher.AEAD
// field: identity cipher + tag = SHA3(key, nonce, plaintext) (SHA3 is
// uninterpreted and collision-free under gosym, real natively).  The
// connection is an in-memory pipe.

import (
	"bytes"
	"crypto/ecdsa"
	"crypto/elliptic"
	"errors"
	"math/big"
	"net"

	"github.com/icon-project/goloop/common/crypto"
	"github.com/icon-project/goloop/zzverif/sym"
)

type vhC31Aead struct {
	key []byte
}

func (a *vhC31Aead) NonceSize() int { return 12 }
func (a *vhC31Aead) Overhead() int  { return 32 }
func (a *vhC31Aead) tag(nonce, pt []byte) []byte {
	in := append(append(append([]byte{}, a.key...), nonce...), pt...)
	return crypto.SHA3Sum256(in)
}
func (a *vhC31Aead) Seal(dst, nonce, plaintext, ad []byte) []byte {
	out := append(dst, plaintext...)
	return append(out, a.tag(nonce, plaintext)...)
}
func (a *vhC31Aead) Open(dst, nonce, ciphertext, ad []byte) ([]byte, error) {
	if len(ciphertext) < 32 {
		return nil, errors.New("short ciphertext")
	}
	pt := ciphertext[:len(ciphertext)-32]
	if !bytes.Equal(a.tag(nonce, pt), ciphertext[len(ciphertext)-32:]) {
		return nil, errors.New("message authentication failed")
	}
	return append(dst, pt...), nil
}

type vhC31Pipe struct {
	net.Conn
	buf []byte
}

func (p *vhC31Pipe) Write(b []byte) (int, error) {
	p.buf = append(p.buf, b...)
	return len(b), nil
}

func (p *vhC31Pipe) Read(b []byte) (int, error) {
	if len(p.buf) == 0 {
		return 0, errors.New("pipe empty")
	}
	n := copy(b, p.buf)
	p.buf = p.buf[n:]
	return n, nil
}

func vhC31Pair() (*SecureAead, *SecureAead, *vhC31Pipe) {
	pipe := &vhC31Pipe{}
	key := []byte{1, 2, 3, 4}
	w := &SecureAead{conn: pipe, secret: key, aead: &vhC31Aead{key: key}, nonce: make([]byte, 12)}
	r := &SecureAead{conn: pipe, secret: key, aead: &vhC31Aead{key: key}, nonce: make([]byte, 12)}
	return w, r, pipe
}

// bytes written are read back as the same byte sequence for any write sizes
// and any read buffer sizes; every Read obeys the io.Reader contract
func VH_C31_stream() {
	w, r, _ := vhC31Pair()
	var written []byte
	nw := sym.Range("writes", 1, sym.Param("WRITES", 2))
	for i := 0; i < nw; i++ {
		chunk := sym.Bytes("chunk", sym.Range("wlen", 1, sym.Param("WLEN", 3)))
		n, err := w.Write(chunk)
		sym.Assert(err == nil && n == len(chunk), "Write accepts the whole chunk")
		written = append(written, chunk...)
	}
	var got []byte
	for step := 0; step < len(written)+nw && len(got) < len(written); step++ { // every Read of outstanding data yields at least one byte
		buf := make([]byte, sym.Range("rlen", 1, sym.Param("RLEN", 4)))
		n, err := r.Read(buf)
		sym.Assert(err == nil, "Read succeeds while written data is outstanding")
		sym.Assert(n >= 0 && n <= len(buf), "Read returns 0 <= n <= len(buf) (io.Reader contract)")
		if n > len(buf) {
			return
		}
		if n < len(buf) {
			sym.Reach("short-read")
		}
		got = append(got, buf[:n]...)
	}
	sym.Assert(len(got) == len(written), "all written bytes are read back")
	if len(got) == len(written) {
		for i := range got {
			sym.Assert(got[i] == written[i], "bytes are read back unchanged and in order")
		}
	}
	sym.Reach("done")
}

// any altered ciphertext byte (outside the length header) is rejected
func VH_C31_tamper() {
	w, r, pipe := vhC31Pair()
	chunk := sym.Bytes("chunk", sym.Range("wlen", 1, 2))
	w.Write(chunk)
	pos := secureConnHeaderSize + sym.Choose("pos", len(pipe.buf)-secureConnHeaderSize)
	mask := sym.U8("mask")
	sym.Assume(mask != 0)
	pipe.buf[pos] ^= mask
	buf := make([]byte, 8)
	_, err := r.Read(buf)
	sym.Assert(err != nil, "a tampered frame is rejected")
}

// frames delivered out of order are rejected
func VH_C31_reorder() {
	w, r, pipe := vhC31Pair()
	a := sym.Bytes("a", 1)
	b := sym.Bytes("b", 1)
	w.Write(a)
	f1 := len(pipe.buf)
	w.Write(b)
	swapped := append(append([]byte{}, pipe.buf[f1:]...), pipe.buf[:f1]...)
	pipe.buf = swapped
	buf := make([]byte, 8)
	_, err := r.Read(buf)
	sym.Assert(err != nil, "a frame delivered out of order is rejected")
}

// replaying the first frame is rejected
func VH_C31_replay() {
	w, r, pipe := vhC31Pair()
	a := sym.Bytes("a", 1)
	w.Write(a)
	pipe.buf = append(pipe.buf, pipe.buf...)
	buf := make([]byte, 8)
	_, err := r.Read(buf)
	sym.Assert(err == nil, "first copy accepted")
	_, err = r.Read(buf)
	sym.Assert(err != nil, "a replayed frame is rejected")
}

// stub for network.newSecureAead (props/C31.json "replace"): the ideal AEAD keyed by the secret
func vhC31NewSecureAead(conn net.Conn, sa SecureAeadSuite, secret []byte) (*SecureAead, error) {
	return &SecureAead{conn: conn, secret: secret, aead: &vhC31Aead{key: secret}, nonce: make([]byte, 12)}, nil
}

var vhC31Peer [2]*big.Int

// stub for crypto/elliptic.Unmarshal: the peer's coordinates as set by the harness
func vhC31Unmarshal(curve elliptic.Curve, data []byte) (*big.Int, *big.Int) {
	return vhC31Peer[0], vhC31Peer[1]
}

// both ends derive matching keys with separate keys per direction, for every
// ordering of the two public points (ties broken by opposite defaults)
func VH_C31_directions() {
	var ka, kb *secureKey
	var pubA, pubB []byte
	if sym.Symbolic() {
		ax, ay, bx, by := sym.BigZ("ax"), sym.BigZ("ay"), sym.BigZ("bx"), sym.BigZ("by")
		ka = &secureKey{PrivateKey: &ecdsa.PrivateKey{PublicKey: ecdsa.PublicKey{X: ax, Y: ay}}}
		kb = &secureKey{PrivateKey: &ecdsa.PrivateKey{PublicKey: ecdsa.PublicKey{X: bx, Y: by}}}
		vhC31Peer = [2]*big.Int{bx, by}
		sym.Assert(ka.setPeerPublicKey(nil, true) == nil, "peer key accepted")
		vhC31Peer = [2]*big.Int{ax, ay}
		sym.Assert(kb.setPeerPublicKey(nil, false) == nil, "peer key accepted")
	} else {
		ka = newSecureKey(elliptic.P256(), nil)
		kb = newSecureKey(elliptic.P256(), nil)
		pubA, pubB = ka.marshalPublicKey(), kb.marshalPublicKey()
		sym.Assert(ka.setPeerPublicKey(pubB, true) == nil, "peer key accepted")
		sym.Assert(kb.setPeerPublicKey(pubA, false) == nil, "peer key accepted")
	}
	sym.Assert(ka.isLower != kb.isLower, "exactly one end is the lower one")
	s0, s1 := bytes.Repeat([]byte{0xa0}, 16), bytes.Repeat([]byte{0xb0}, 16)
	ka.secret = [][]byte{s0, s1}
	kb.secret = [][]byte{s0, s1}
	pab := &vhC31Pipe{}
	ca, err := NewSecureConn(pab, SecureAeadSuiteAes128Gcm, ka)
	sym.Assert(err == nil, "secure conn A")
	cb, err := NewSecureConn(pab, SecureAeadSuiteAes128Gcm, kb)
	sym.Assert(err == nil, "secure conn B")
	sym.Assert(bytes.Equal(ca.out.secret, cb.in.secret), "A's sending key is B's receiving key")
	sym.Assert(bytes.Equal(ca.in.secret, cb.out.secret), "A's receiving key is B's sending key")
	sym.Assert(!bytes.Equal(ca.in.secret, ca.out.secret), "the two directions use different keys")
}

package network

// C31, continued: the per-direction frame counter.  One step of the real
// increaseNonce from an ARBITRARY nonce is the successor in a 96-bit
// big-endian counter (so no nonce repeats before 2^96 frames), which is what
// makes a reordered or replayed frame fail authentication.

import (
	"github.com/icon-project/goloop/zzverif/sym"
)

func VH_C31_nonce_step() {
	key := []byte{1, 2, 3, 4}
	n0 := sym.Bytes("nonce", 12)
	sa := &SecureAead{aead: &vhC31Aead{key: key}, nonce: append([]byte{}, n0...)}
	sa.increaseNonce()
	// reference: big-endian increment with carry
	want := append([]byte{}, n0...)
	carry := true
	for i := 11; i >= 0; i-- {
		if carry {
			want[i] = n0[i] + 1
			carry = n0[i] == 0xff
		}
	}
	var same []bool
	for i := range want {
		same = append(same, sa.nonce[i] == want[i])
	}
	sym.Assert(sym.And(same...), "the frame counter advances to its successor as a 96-bit big-endian number")
	var unchanged []bool
	for i := range n0 {
		unchanged = append(unchanged, sa.nonce[i] == n0[i])
	}
	sym.Assert(!sym.And(unchanged...), "the frame counter never stays the same")
}

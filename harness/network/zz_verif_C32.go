package network

// Harness for property C32 (peer identity is bound to a key over the session
// secret): the real Authenticator.Signature (prover side) and
// Authenticator.VerifySignature (verifier side) with modelled ECDSA (key model
// under gosym, real secp256k1 natively) and uninterpreted collision-free SHA3.

import (
	"github.com/icon-project/goloop/common"
	"github.com/icon-project/goloop/common/crypto"
	"github.com/icon-project/goloop/module"
	"github.com/icon-project/goloop/zzverif/sym"
)

type vhC32Wallet struct {
	priv *crypto.PrivateKey
	pub  *crypto.PublicKey
}

func (w *vhC32Wallet) Address() module.Address { return common.NewAccountAddressFromPublicKey(w.pub) }
func (w *vhC32Wallet) PublicKey() []byte       { return w.pub.SerializeCompressed() }
func (w *vhC32Wallet) Sign(data []byte) ([]byte, error) {
	sig, err := crypto.NewSignature(data, w.priv)
	if err != nil {
		return nil, err
	}
	return sig.SerializeRSV()
}

func vhC32Wallet2() (*vhC32Wallet, *vhC32Wallet) {
	p1, k1 := crypto.GenerateKeyPair()
	p2, k2 := crypto.GenerateKeyPair()
	return &vhC32Wallet{p1, k1}, &vhC32Wallet{p2, k2}
}

func VH_C32_verify_signature() {
	claimed, other := vhC32Wallet2()
	verifier := &Authenticator{}
	secretLen := sym.Param("SECRET", 2)
	session := sym.Bytes("session_secret", secretLen)
	signedOver := session
	thisSession := sym.Bool("this_session")
	if !thisSession {
		signedOver = sym.Bytes("other_secret", secretLen)
		var same []bool
		for i := range session {
			same = append(same, session[i] == signedOver[i])
		}
		sym.Assume(!sym.And(same...))
	}
	byClaimed := sym.Bool("by_claimed_key")
	signer := claimed
	if !byClaimed {
		signer = other
	}
	prover := &Authenticator{wallet: signer}
	sig := prover.Signature(signedOver)
	id, err := verifier.VerifySignature(claimed.PublicKey(), sig, session)
	if byClaimed && thisSession {
		sym.Reach("genuine")
		sym.Assert(err == nil, "a signature by the claimed key over this session's secret is accepted")
		sym.Assert(id != nil && id.Equal(NewPeerIDFromAddress(claimed.Address())), "the identity is the one of the proven key")
	} else {
		sym.Reach("rejected")
		sym.Assert(err != nil, "a signature over another session's secret or by another key is rejected")
	}
}

func VH_C32_malformed() {
	claimed, _ := vhC32Wallet2()
	verifier := &Authenticator{}
	session := sym.Bytes("session_secret", 2)
	prover := &Authenticator{wallet: claimed}
	sig := prover.Signature(session)
	switch sym.Choose("case", 3) {
	case 0:
		// truncated / over-long signatures
		n := []int{0, 1, 63, 66}[sym.Choose("siglen", 4)]
		_, err := verifier.VerifySignature(claimed.PublicKey(), sym.Bytes("badsig", n), session)
		sym.Assert(err != nil, "a signature of a wrong length is rejected")
	case 1:
		// a key that does not parse
		_, err := verifier.VerifySignature([]byte{0x02, 0x01}, sig, session)
		sym.Assert(err != nil, "a malformed public key is rejected")
	default:
		// arbitrary 65 bytes that are not a signature made for this secret
		_, err := verifier.VerifySignature(claimed.PublicKey(), sym.Bytes("forged", 65), session)
		if err == nil {
			sym.Reach("coincides-with-genuine") // only when the bytes are exactly the genuine signature
		} else {
			sym.Reach("forged-rejected")
		}
	}
}

package network

// C32, continued: the same verifier across two sessions - a proof accepted in
// one session is not accepted when replayed under another session's secret.

import (
	"github.com/icon-project/goloop/zzverif/sym"
)

func VH_C32_replay_other_session() {
	claimed, _ := vhC32Wallet2()
	verifier := &Authenticator{}
	s1 := sym.Bytes("secret1", 2)
	s2 := sym.Bytes("secret2", 2)
	sym.Assume(sym.Or(s1[0] != s2[0], s1[1] != s2[1]))
	prover := &Authenticator{wallet: claimed}
	proof := prover.Signature(s1)
	_, err := verifier.VerifySignature(claimed.PublicKey(), proof, s2)
	sym.Assert(err != nil, "a proof over another session's secret is rejected (before the honest handshake)")
	_, err = verifier.VerifySignature(claimed.PublicKey(), proof, s1)
	sym.Assert(err == nil, "the honest handshake of session 1 succeeds")
	_, err = verifier.VerifySignature(claimed.PublicKey(), proof, s2)
	sym.Assert(err != nil, "the proof of session 1 replayed in session 2 is rejected, also after session 1 succeeded")
	sym.Reach("replayed")
}

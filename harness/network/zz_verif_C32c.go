package network

// C32, continued: the identity handed to an authenticated peer stays the one
// of the key it proved, however many other identities pass through the
// identity cache afterwards (the real peerIDCache code, with a small capacity
// so that evictions happen within the bound).

import (
	"bytes"

	"github.com/icon-project/goloop/common"
	"github.com/icon-project/goloop/module"
	"github.com/icon-project/goloop/zzverif/sym"
)

func VH_C32_identity_is_stable() {
	size := 1 + sym.Choose("cache_size", 2)
	saved := cache
	cache = newPeerIDCache(size)
	defer func() { cache = saved }()

	claimed, _ := vhC32Wallet2()
	verifier := &Authenticator{}
	session := sym.Bytes("session_secret", 2)
	prover := &Authenticator{wallet: claimed}
	id, err := verifier.VerifySignature(claimed.PublicKey(), prover.Signature(session), session)
	sym.Assert(err == nil && id != nil, "the genuine proof is accepted")
	proven := claimed.Address()

	// other identities are looked up afterwards (other peers authenticate, ids arrive in messages)
	k := sym.Param("OTHERS", 3)
	var held []module.PeerID
	var heldFor []module.Address
	for i := 0; i < k; i++ {
		body := make([]byte, 20)
		body[19] = sym.U8("other")
		a := common.NewAccountAddress(body)
		p := NewPeerIDFromAddress(a)
		sym.Assert(p != nil && bytes.Equal(p.Bytes(), a.ID()), "a looked-up identity is the one asked for")
		held = append(held, p)
		heldFor = append(heldFor, a)
	}
	sym.Assert(bytes.Equal(id.Bytes(), proven.ID()), "the identity of an authenticated peer stays the one of the key it proved")
	for i := range held {
		sym.Assert(bytes.Equal(held[i].Bytes(), heldFor[i].ID()), "an identity object never changes the address it stands for")
	}
	again := NewPeerIDFromAddress(proven)
	sym.Assert(bytes.Equal(again.Bytes(), proven.ID()) && again.Equal(id), "looking the proven identity up again gives an equal identity")
	sym.Reach("identity-stable")
}

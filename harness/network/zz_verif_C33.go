package network

// Harness for property C33 (flooded messages are delivered once and only
// from authorized origins): the real PeerToPeer.onPacket (application
// branch) with the real PacketPool, for arbitrary packets and peers.

import (
	"github.com/icon-project/goloop/common/log"
	"github.com/icon-project/goloop/module"
	"github.com/icon-project/goloop/zzverif/sym"
)

const vhC33Proto = module.ProtocolInfo(0x0300)

type vhC33Env struct {
	p2p       *PeerToPeer
	delivered []*Packet
	from      []*Peer
}

func vhC33New(nb uint8, lb uint16, selfID []byte) *vhC33Env {
	e := &vhC33Env{}
	self := &Peer{id: NewPeerID(selfID)}
	e.p2p = &PeerToPeer{
		peerHandler:     newPeerHandler(self.id, log.New()),
		onPacketCbFuncs: map[uint16]packetCbFunc{},
		packetPool:      NewPacketPool(nb, lb),
		self:            self,
	}
	e.p2p.onPacketCbFuncs[vhC33Proto.Uint16()] = func(pkt *Packet, p *Peer) {
		e.delivered = append(e.delivered, pkt)
		e.from = append(e.from, p)
	}
	return e
}

func vhC33Peer(tag string) *Peer {
	p := &Peer{
		id:       NewPeerID(sym.Bytes(tag+"id", peerIDSize)),
		connType: PeerConnectionType(sym.U8(tag + "conn")),
		role:     PeerRoleFlag(sym.U8(tag + "role")),
		pis:      newProtocolInfos(),
		logger:   log.New(),
		close:    make(chan error, 4),
	}
	p.pis.Add(vhC33Proto)
	return p
}

func vhC33Pkt(tag string) *Packet {
	return &Packet{
		protocol:     vhC33Proto,
		subProtocol:  module.ProtocolInfo(sym.U16(tag + "spi")),
		src:          NewPeerID(sym.Bytes(tag+"src", peerIDSize)),
		dest:         sym.U8(tag + "dest"),
		ttl:          sym.U8(tag + "ttl"),
		hashOfPacket: sym.U64(tag + "hash"),
	}
}

// one delivery: whatever reaches the application came from an authorized origin
func VH_C33_origin() {
	selfID := sym.Bytes("self", peerIDSize)
	e := vhC33New(2, 2, selfID)
	p := vhC33Peer("p_")
	pkt := vhC33Pkt("k_")
	e.p2p.onPacket(pkt, p)
	if len(e.delivered) == 0 {
		sym.Reach("dropped")
		return
	}
	sym.Reach("delivered")
	sym.Assert(len(e.delivered) == 1, "one packet gives at most one delivery")
	fromSrc := p.id.Equal(pkt.src)
	oneHop := sym.Or(pkt.ttl != 0, pkt.dest == p2pDestPeer)
	sym.Assert(sym.Implies(oneHop, fromSrc), "a one-hop message is accepted only from its originating peer")
	bcast := sym.And(pkt.dest == p2pDestAny, pkt.ttl == 0)
	sym.Assert(sym.Implies(sym.And(bcast, fromSrc), p.role&p2pRoleRoot != 0), "an originator broadcast is accepted only from a peer holding the validator role")
	sym.Assert(!e.p2p.ID().Equal(pkt.src), "a message claiming this node as its source is never delivered")
	sym.Assert(p.connType != p2pConnTypeNone, "nothing is delivered from a peer whose connection type is undetermined")
}

// the same flooded message relayed by two peers reaches the application once
func VH_C33_once() {
	selfID := sym.Bytes("self", peerIDSize)
	e := vhC33New(2, 2, selfID)
	p1 := vhC33Peer("p1_")
	p2 := vhC33Peer("p2_")
	k1 := vhC33Pkt("k1_")
	k2 := vhC33Pkt("k2_")
	// both are flooded (not one-hop) messages with the same identity
	sym.Assume(sym.And(k1.ttl == 0, k1.dest != p2pDestPeer, k2.ttl == 0, k2.dest != p2pDestPeer))
	sym.Assume(k1.hashOfPacket == k2.hashOfPacket)
	e.p2p.onPacket(k1, p1)
	n1 := len(e.delivered)
	e.p2p.onPacket(k2, p2)
	if n1 == 1 {
		sym.Reach("first-delivered")
		sym.Assert(len(e.delivered) == 1, "a relayed copy of a delivered flooded message is not delivered again")
	} else {
		sym.Reach("first-dropped")
		sym.Assert(len(e.delivered) <= 1, "at most one delivery")
	}
}

// the duplicate pool: Put refuses exactly what it has seen recently and never
// refuses something it has not seen
func VH_C33_pool() {
	nb := 2 + sym.Choose("nb", 2)
	lb := 1 + sym.Choose("lb", 2)
	pool := NewPacketPool(uint8(nb), uint16(lb))
	window := (nb - 1) * lb
	var accepted []uint64
	k := sym.Param("PUTS", 4)
	for i := 0; i < k; i++ {
		h := sym.U64("h")
		var seen, recent []bool
		for j, a := range accepted {
			seen = append(seen, a == h)
			if j >= len(accepted)-window {
				recent = append(recent, a == h)
			}
		}
		ok := pool.Put(&Packet{hashOfPacket: h})
		if ok {
			sym.Reach("accepted")
			sym.Assert(!sym.Or(recent...), "a message accepted within the pool window is refused when it comes again")
			accepted = append(accepted, h)
		} else {
			sym.Reach("refused")
			sym.Assert(sym.Or(seen...), "only a message seen before is refused")
		}
	}
}

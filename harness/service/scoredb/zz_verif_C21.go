package scoredb

// Harness for property C21, container level: an ArrayDB, a DictDB and a
// VarDB living in the same store behave like an array, a map and a variable
// and never disturb each other (their storage keys do not collide).  SHA3 is
// uninterpreted + collision-free under gosym, real natively.

import (
	"bytes"

	"github.com/icon-project/goloop/zzverif/sym"
)

type vhC21Store struct {
	m map[string][]byte
}

func (s *vhC21Store) GetValue(key []byte) ([]byte, error) {
	return s.m[string(key)], nil
}
func (s *vhC21Store) SetValue(key []byte, value []byte) ([]byte, error) {
	old := s.m[string(key)]
	s.m[string(key)] = value
	return old, nil
}
func (s *vhC21Store) DeleteValue(key []byte) ([]byte, error) {
	old := s.m[string(key)]
	delete(s.m, string(key))
	return old, nil
}

func VH_C21_containers() {
	st := &vhC21Store{m: map[string][]byte{}}
	// container names are arbitrary (possibly equal) strings
	an := sym.String("array_name", 1)
	dn := sym.String("dict_name", 1)
	vn := sym.String("var_name", 1)
	arr := NewArrayDB(st, an)
	dict := NewDictDB(st, dn, 1)
	vr := NewVarDB(st, vn)

	var refArr [][]byte
	refDict := map[byte][]byte{}
	var refVar []byte
	var dictKeys []byte

	ops := sym.Param("OPS", 3)
	for i := 0; i < ops; i++ {
		v := sym.Bytes("v", 1)
		switch sym.Choose("op", 6) {
		case 0:
			sym.Assert(arr.Put(v) == nil, "ArrayDB.Put succeeds")
			refArr = append(refArr, v)
		case 1:
			ov := arr.Pop()
			if len(refArr) == 0 {
				sym.Assert(ov == nil, "Pop of an empty array returns nothing")
			} else {
				sym.Assert(ov != nil, "Pop of a non-empty array returns a value")
				if ov != nil {
					sym.Assert(bytes.Equal(ov.Bytes(), refArr[len(refArr)-1]), "Pop returns the last element")
				}
				refArr = refArr[:len(refArr)-1]
			}
		case 2:
			idx := sym.Choose("idx", 3)
			err := arr.Set(idx, v)
			if idx < len(refArr) {
				sym.Assert(err == nil, "ArrayDB.Set inside the array succeeds")
				refArr[idx] = v
			} else {
				sym.Assert(err != nil, "ArrayDB.Set beyond the size is refused")
			}
		case 3:
			k := sym.U8("k")
			sym.Assert(dict.Set(k, v) == nil, "DictDB.Set succeeds")
			found := false
			for _, e := range dictKeys {
				if e == k {
					found = true
				}
			}
			if !found {
				dictKeys = append(dictKeys, k)
			}
			refDict[k] = v
		case 4:
			k := sym.U8("k")
			sym.Assert(dict.Delete(k) == nil, "DictDB.Delete succeeds")
			delete(refDict, k)
		default:
			sym.Assert(vr.Set(v) == nil, "VarDB.Set succeeds")
			refVar = v
		}
	}
	sym.Reach("ops-done")
	// observation: everything equals the reference
	sym.Assert(arr.Size() == len(refArr), "ArrayDB size equals the number of elements put minus popped")
	for j := range refArr {
		g := arr.Get(j)
		sym.Assert(g != nil, "ArrayDB.Get returns every stored element")
		if g != nil {
			sym.Assert(bytes.Equal(g.Bytes(), refArr[j]), "ArrayDB.Get(i) returns element i")
		}
	}
	sym.Assert(arr.Get(len(refArr)) == nil, "ArrayDB.Get beyond the size returns nothing")
	probe := sym.U8("probe")
	g := dict.Get(probe)
	if want, ok := refDict[probe]; ok {
		sym.Reach("dict-hit")
		sym.Assert(g != nil, "DictDB.Get finds a stored entry")
		if g != nil {
			sym.Assert(bytes.Equal(g.Bytes(), want), "DictDB.Get returns the last value set for the key")
		}
	} else {
		sym.Assert(g == nil, "DictDB.Get finds nothing for a key never set or deleted")
	}
	if refVar == nil {
		sym.Assert(vr.Bytes() == nil, "an unset VarDB is empty")
	} else {
		sym.Assert(bytes.Equal(vr.Bytes(), refVar), "VarDB holds the last value set")
	}
}

// nested dictionaries: entries at different depths / paths do not collide
func VH_C21_nested() {
	st := &vhC21Store{m: map[string][]byte{}}
	d := NewDictDB(st, "d", 2)
	k1, k2 := sym.U8("k1"), sym.U8("k2")
	j1, j2 := sym.U8("j1"), sym.U8("j2")
	v1, v2 := sym.Bytes("v1", 1), sym.Bytes("v2", 1)
	sym.Assert(d.Set(k1, k2, v1) == nil, "Set at depth 2")
	sub := d.GetDB(j1)
	sym.Assert(sub != nil, "sub dictionary")
	sym.Assert(sub.Set(j2, v2) == nil, "Set through the sub dictionary")
	g := d.Get(k1, k2)
	sym.Assert(g != nil, "entry present")
	if sym.And(k1 == j1, k2 == j2) {
		sym.Reach("same-path")
		sym.Assert(bytes.Equal(g.Bytes(), v2), "the same path through a sub dictionary addresses the same entry")
	} else {
		sym.Reach("different-path")
		sym.Assert(bytes.Equal(g.Bytes(), v1), "a different path never overwrites the entry")
	}
	// a one-level dictionary of the same name whose key is the concatenation does not collide
	flat := NewDictDB(st, "d", 1)
	fk := sym.Bytes("fk", 2)
	fv := sym.Bytes("fv", 1)
	sym.Assert(flat.Set(fk, fv) == nil, "Set in the flat dictionary")
	g = d.Get(j1, j2)
	sym.Assert(g != nil && bytes.Equal(g.Bytes(), v2), "a flat key never collides with a nested path")
}

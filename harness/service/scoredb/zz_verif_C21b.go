package scoredb

// C21, continued: sibling containers derived from one parent and alive at the
// same time (a := parent.GetDB(ka); b := parent.GetDB(kb); then both used)
// address different entries - deriving one never disturbs the path of another.

import (
	"bytes"

	"github.com/icon-project/goloop/zzverif/sym"
)

func VH_C21_siblings() {
	st := &vhC21Store{m: map[string][]byte{}}
	d := NewDictDB(st, "d", 3)
	owner := sym.Bytes("owner", sym.Choose("owner_len", 3)+1) // 1..3 bytes
	parent := d.GetDB(owner)
	sym.Assert(parent != nil, "sub dictionary")
	ka, kb := sym.U8("ka"), sym.U8("kb")
	a := parent.GetDB(ka)
	b := parent.GetDB(kb)
	sym.Assert(a != nil && b != nil, "sibling dictionaries")
	x := sym.U8("x")
	va, vb := sym.Bytes("va", 1), sym.Bytes("vb", 1)
	sym.Assert(a.Set(x, va) == nil, "Set through the first sibling")
	sym.Assert(b.Set(x, vb) == nil, "Set through the second sibling")
	ga, gb := d.Get(owner, ka, x), d.Get(owner, kb, x)
	sym.Assert(ga != nil && gb != nil, "both entries are present under their full paths")
	if ga == nil || gb == nil {
		return
	}
	sym.Assert(bytes.Equal(gb.Bytes(), vb), "the entry written last through a sibling is found under its full path")
	if ka != kb {
		sym.Reach("different-siblings")
		sym.Assert(bytes.Equal(ga.Bytes(), va), "a sibling container derived later does not redirect an earlier one")
		sym.Assert(bytes.Equal(a.Get(x).Bytes(), va) && bytes.Equal(b.Get(x).Bytes(), vb), "each sibling reads back its own entry")
	} else {
		sym.Assert(bytes.Equal(ga.Bytes(), vb), "the same path addresses the same entry")
	}
	// array and variable containers derived from the same parent path as well
	arr := NewArrayDB(st, "d", owner, ka)
	vr := NewVarDB(st, "d", owner, kb)
	sym.Assert(arr.Put(va) == nil && vr.Set(vb) == nil, "array and variable below the same parent")
	sym.Assert(arr.Size() == 1 && bytes.Equal(arr.Get(0).Bytes(), va) && bytes.Equal(vr.Bytes(), vb), "array element and variable below one parent keep their own values")
}

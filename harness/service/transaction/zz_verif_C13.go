package transaction

// Harness for property C13 (only the sender's key can authorize a
// transaction): the real transactionV3.verifySignature glue with modelled
// ECDSA (key model under gosym, real secp256k1 natively), and the real
// signature byte formats for every 65/64-byte string.

import (
	"bytes"

	"github.com/icon-project/goloop/common"
	"github.com/icon-project/goloop/common/crypto"
	"github.com/icon-project/goloop/zzverif/sym"
)

func VH_C13_verify_signature() {
	senderPriv, senderPub := crypto.GenerateKeyPair()
	otherPriv, _ := crypto.GenerateKeyPair()
	tx := &transactionV3{}
	tx.txHash = sym.Bytes("txid", 32)
	tx.transactionV3Data.From = *common.NewAccountAddressFromPublicKey(senderPub)
	signedHash := tx.txHash
	bySender := sym.Bool("signed_by_sender")
	overID := sym.Bool("signed_over_id")
	if !overID {
		signedHash = sym.Bytes("otherhash", 32)
		var same []bool
		for i := range signedHash {
			same = append(same, signedHash[i] == tx.txHash[i])
		}
		sym.Assume(!sym.And(same...))
	}
	key := senderPriv
	if !bySender {
		key = otherPriv
	}
	sig, err := crypto.NewSignature(signedHash, key)
	sym.Assert(err == nil, "harness: signing succeeds")
	// through the wire format, as a submitted transaction carries it
	rsv, err := sig.SerializeRSV()
	sym.Assert(err == nil, "harness: serialisation succeeds")
	parsed, err := crypto.ParseSignature(rsv)
	sym.Assert(err == nil, "harness: parsing succeeds")
	tx.Signature.Signature = parsed
	err = tx.verifySignature()
	if bySender && overID {
		sym.Reach("genuine")
		sym.Assert(err == nil, "a signature by the sender's key over the transaction id verifies")
	} else {
		sym.Reach("not-authorized")
		sym.Assert(err != nil, "a signature by another key or over another hash is rejected")
	}
}

func VH_C13_malformed() {
	_, senderPub := crypto.GenerateKeyPair()
	tx := &transactionV3{}
	tx.txHash = sym.Bytes("txid", 32)
	tx.transactionV3Data.From = *common.NewAccountAddressFromPublicKey(senderPub)
	switch sym.Choose("case", 3) {
	case 0:
		sym.Assert(tx.verifySignature() != nil, "a transaction without signature is rejected")
	case 1:
		// a 64-byte signature has no recovery id
		s, err := crypto.ParseSignature(sym.Bytes("rs", 64))
		sym.Assert(err == nil, "a 64-byte signature parses")
		tx.Signature.Signature = s
		sym.Assert(tx.verifySignature() != nil, "a signature without recovery id is rejected")
	default:
		tx.txHash = []byte{}
		s, err := crypto.ParseSignature(sym.Bytes("rsv", 65))
		sym.Assert(err == nil, "a 65-byte signature parses")
		tx.Signature.Signature = s
		sym.Assert(tx.verifySignature() != nil, "a transaction whose id could not be computed is rejected")
	}
}

// byte formats: every 65-byte string round-trips through the signature type in
// all three serialisations; other lengths are rejected
func VH_C13_signature_format() {
	lens := []int{0, 1, 63, 64, 65, 66}
	n := lens[sym.Choose("len", len(lens))]
	in := sym.Bytes("sig", n)
	s, err := crypto.ParseSignature(in)
	switch n {
	case 65:
		sym.Reach("rsv")
		sym.Assert(err == nil && s.HasV(), "65 bytes parse as a signature with recovery id")
		out, err := s.SerializeRSV()
		sym.Assert(err == nil && bytes.Equal(out, in), "SerializeRSV(ParseSignature(s)) == s for every 65-byte string")
		vrs, err := s.SerializeVRS()
		sym.Assert(err == nil && len(vrs) == 65, "VRS form")
		sym.Assert(vrs[0] == in[64] && bytes.Equal(vrs[1:], in[:64]), "the VRS form is the same signature with the recovery id first")
		s2, err := crypto.ParseSignatureVRS(vrs)
		sym.Assert(err == nil, "the VRS form parses")
		out2, err := s2.SerializeRSV()
		sym.Assert(err == nil && bytes.Equal(out2, in), "VRS and RSV forms denote the same signature")
		rs, err := s.SerializeRS()
		sym.Assert(err == nil && bytes.Equal(rs, in[:64]), "the RS form drops the recovery id")
	case 64:
		sym.Reach("rs")
		sym.Assert(err == nil && !s.HasV(), "64 bytes parse as a signature without recovery id")
		_, err := s.SerializeRSV()
		sym.Assert(err != nil, "a signature without recovery id has no RSV form")
		rs, err := s.SerializeRS()
		sym.Assert(err == nil && bytes.Equal(rs, in), "RS round trip")
		_, err = s.RecoverPublicKey(sym.Bytes("h", 32))
		sym.Assert(err != nil, "key recovery needs the recovery id")
	default:
		sym.Reach("bad-length")
		sym.Assert(err != nil, "any other length is rejected")
	}
}

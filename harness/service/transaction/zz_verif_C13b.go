package transaction

// C13, continued: the sender address is compared as a whole - a contract
// address with the same 20-byte body as the signer's account address is not
// the signer.

import (
	"github.com/icon-project/goloop/common"
	"github.com/icon-project/goloop/common/crypto"
	"github.com/icon-project/goloop/zzverif/sym"
)

func VH_C13_contract_sender() {
	priv, pub := crypto.GenerateKeyPair()
	account := common.NewAccountAddressFromPublicKey(pub)
	tx := &transactionV3{}
	tx.txHash = sym.Bytes("txid", 32)
	asContract := sym.Bool("from_is_contract_with_same_body")
	if asContract {
		tx.transactionV3Data.From = *common.NewContractAddress(account.ID())
	} else {
		tx.transactionV3Data.From = *account
	}
	sig, err := crypto.NewSignature(tx.txHash, priv)
	sym.Assert(err == nil, "harness: signing succeeds")
	tx.Signature.Signature = sig
	err = tx.verifySignature()
	if asContract {
		sym.Reach("contract-sender")
		sym.Assert(err != nil, "no key authorises a contract address, even one with the same body as the signer's account")
	} else {
		sym.Assert(err == nil, "the sender's own key authorises its account address")
	}
}

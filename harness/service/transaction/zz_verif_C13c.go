package transaction

// C13, continued: a transaction whose id cannot be computed (TxHash() then
// yields the empty, non-nil byte string) is never authorised, and key recovery
// refuses every message hash that is not 1..32 bytes long, for every signature.

import (
	"github.com/icon-project/goloop/common"
	"github.com/icon-project/goloop/common/crypto"
	"github.com/icon-project/goloop/zzverif/sym"
)

func VH_C13_no_id() {
	priv, pub := crypto.GenerateKeyPair()
	tx := &transactionV3{}
	tx.transactionV3Data.From = *common.NewAccountAddressFromPublicKey(pub)
	tx.txHash = []byte{} // what TxHash() stores when the id cannot be computed
	// any well-formed signature: a genuine one by the sender over any 32-byte value, or arbitrary 65 bytes
	var sig *crypto.Signature
	var err error
	if sym.Bool("genuine_signature_over_something") {
		sig, err = crypto.NewSignature(sym.Bytes("signed", 32), priv)
		sym.Assert(err == nil, "harness: signing succeeds")
	} else {
		sig, err = crypto.ParseSignature(sym.Bytes("rsv", 65))
		sym.Assert(err == nil, "a 65-byte signature parses")
	}
	tx.Signature.Signature = sig
	sym.Assert(tx.verifySignature() != nil, "a transaction without a computable id is never authorised")

	var hash []byte
	switch sym.Choose("hash", 3) {
	case 0:
		hash = nil
	case 1:
		hash = []byte{}
	default:
		hash = sym.Bytes("long", 33)
	}
	_, err = sig.RecoverPublicKey(hash)
	sym.Assert(err != nil, "key recovery refuses an empty or over-long message hash")
	sym.Assert(!sig.Verify(hash, pub), "verification refuses an empty or over-long message hash")
	sym.Reach("no-id")
}

package transaction

// Harness for properties C15 (transaction fees and transfers conserve ICX)
// and C16 (a failed transaction changes nothing but the fee): the whole real
// transactionHandler.Execute / DoExecute with the real contract.CallContext,
// call frames and receipt, over a three-account world kept by the harness.
// The executed "program" is either the real contract.TransferHandler or a
// harness handler that transfers the value, optionally moves funds on, emits
// an event log and a BTP message, consumes an arbitrary number of steps and
// ends with an arbitrary status.  Amounts are unbounded integers.

import (
	"math/big"

	"github.com/icon-project/goloop/common"
	"github.com/icon-project/goloop/common/codec"
	"github.com/icon-project/goloop/common/db"
	"github.com/icon-project/goloop/common/log"
	"github.com/icon-project/goloop/module"
	"github.com/icon-project/goloop/service/contract"
	"github.com/icon-project/goloop/service/scoreresult"
	"github.com/icon-project/goloop/service/state"
	"github.com/icon-project/goloop/service/trace"
	"github.com/icon-project/goloop/zzverif/sym"
)

type vhC15Account struct {
	state.AccountState
	bal *big.Int
}

func (a *vhC15Account) GetBalance() *big.Int  { return a.bal }
func (a *vhC15Account) SetBalance(v *big.Int) { a.bal = v }
func (a *vhC15Account) IsContract() bool      { return false }
func (a *vhC15Account) IsBlocked() bool       { return false }

type vhC15Snap struct {
	state.WorldSnapshot
	bals []*big.Int
}

type vhC15Ctx struct {
	contract.Context
	addrs       []module.Address
	accts       []*vhC15Account
	stepPrice   *big.Int
	invokeLimit *big.Int
	rev         module.Revision
	tl          *trace.Logger
}

const vhC15DefaultStepCost = 100

func (c *vhC15Ctx) GetTraceLogger(p module.ExecutionPhase) *trace.Logger { return c.tl }
func (c *vhC15Ctx) GetStepLimit(t string) *big.Int                       { return c.invokeLimit }
func (c *vhC15Ctx) StepPrice() *big.Int                                  { return c.stepPrice }
func (c *vhC15Ctx) StepsFor(t state.StepType, n int) int64 {
	if t == state.StepTypeDefault {
		return int64(n) * vhC15DefaultStepCost
	}
	return int64(n)
}
func (c *vhC15Ctx) GetAccountState(id []byte) state.AccountState {
	for i, a := range c.addrs {
		if string(a.ID()) == string(id) {
			return c.accts[i]
		}
	}
	panic("harness: unknown account")
}
func (c *vhC15Ctx) GetSnapshot() state.WorldSnapshot {
	s := &vhC15Snap{}
	for _, a := range c.accts {
		s.bals = append(s.bals, a.bal)
	}
	return s
}
func (c *vhC15Ctx) Reset(s state.WorldSnapshot) error {
	sn := s.(*vhC15Snap)
	for i, a := range c.accts {
		a.bal = sn.bals[i]
	}
	return nil
}
func (c *vhC15Ctx) Database() db.Database               { return nil }
func (c *vhC15Ctx) Revision() module.Revision           { return c.rev }
func (c *vhC15Ctx) TransactionID() []byte               { return []byte{0x15} }
func (c *vhC15Ctx) FeeSharingEnabled() bool             { return false }
func (c *vhC15Ctx) BlockHeight() int64                  { return 1 }
func (c *vhC15Ctx) ChainID() int                        { return 1 }
func (c *vhC15Ctx) GetProperty(name string) interface{} { return nil }

// the harness program
type vhC15Prog struct {
	*contract.CommonHandler
	ctx            *vhC15Ctx
	steps          *big.Int
	moveOn         *big.Int // moved from the recipient to the third account (nil: not done)
	takeFromSender *big.Int // moved from the sender to the third account by the program (nil: not done)
	taken          *big.Int // what was actually taken
	returnedOK     bool     // the program itself ended successfully
	emit           bool
	status         error
	executed       bool
}

func (p *vhC15Prog) ExecuteSync(cc contract.CallContext) (error, *codec.TypedObj, module.Address) {
	p.executed = true
	if !cc.DeductSteps(p.steps) {
		return scoreresult.ErrOutOfStep, nil, nil
	}
	th := &contract.TransferHandler{CommonHandler: p.CommonHandler}
	if err, _, _ := th.DoExecuteSync(cc); err != nil {
		return err, nil, nil
	}
	if p.takeFromSender != nil {
		// the called contract spends the caller's own funds (what staking does)
		from := cc.GetAccountState(p.From.ID())
		third := cc.GetAccountState(p.ctx.addrs[2].ID())
		if from.GetBalance().Cmp(p.takeFromSender) >= 0 {
			from.SetBalance(new(big.Int).Sub(from.GetBalance(), p.takeFromSender))
			third.SetBalance(new(big.Int).Add(third.GetBalance(), p.takeFromSender))
			p.taken = p.takeFromSender
		}
	}
	if p.moveOn != nil {
		to := cc.GetAccountState(p.To.ID())
		third := cc.GetAccountState(p.ctx.addrs[2].ID())
		if to.GetBalance().Cmp(p.moveOn) >= 0 {
			to.SetBalance(new(big.Int).Sub(to.GetBalance(), p.moveOn))
			third.SetBalance(new(big.Int).Add(third.GetBalance(), p.moveOn))
		}
	}
	if p.emit {
		cc.OnEvent(p.To, [][]byte{[]byte("Done(int)"), {0x01}}, [][]byte{{0x02}})
		cc.OnBTPMessage(7, []byte{0xb7})
	}
	p.returnedOK = p.status == nil
	return p.status, nil, nil
}

func vhC15NonNeg(name string) *big.Int {
	v := sym.BigZ(name)
	sym.Assume(v.Sign() >= 0)
	return v
}

func vhC15Run(real bool) { vhC15RunTo(real, false) }

func vhC15RunTo(real, self bool) {
	lg := log.New()
	ctx := &vhC15Ctx{
		stepPrice:   vhC15NonNeg("stepPrice"),
		invokeLimit: vhC15NonNeg("invokeLimit"),
		rev:         module.ExpandErrorCode | module.InputCostingWithJSON,
		tl:          trace.NewLogger(lg, nil),
	}
	if sym.Param("LEGACY", 0) == 1 && sym.Bool("legacy_fee_charge") {
		ctx.rev |= module.LegacyFeeCharge
	}
	for i := 0; i < 3; i++ {
		ctx.addrs = append(ctx.addrs, common.MustNewAddressFromString("hx00000000000000000000000000000000000000f"+string([]byte{'1' + byte(i)})))
		ctx.accts = append(ctx.accts, &vhC15Account{bal: vhC15NonNeg("balance")})
	}
	initial := ctx.GetSnapshot().(*vhC15Snap).bals
	from, to := ctx.addrs[0], ctx.addrs[1]
	if self {
		to = from // a transfer to oneself
	}
	value := vhC15NonNeg("value")
	stepLimit := vhC15NonNeg("stepLimit")
	ch := contract.NewCommonHandler(from, to, value, false, lg)
	var prog *vhC15Prog
	th := &transactionHandler{group: module.TransactionGroupNormal, from: from, to: to, value: value, stepLimit: stepLimit}
	if real {
		th.chandler = &contract.TransferHandler{CommonHandler: ch}
	} else {
		prog = &vhC15Prog{CommonHandler: ch, ctx: ctx, steps: vhC15NonNeg("programSteps"), emit: sym.Bool("emits")}
		if sym.Bool("moves_on") {
			prog.moveOn = vhC15NonNeg("movedOn")
		}
		if sym.Bool("takes_from_sender") {
			prog.takeFromSender = vhC15NonNeg("takenFromSender")
		}
		switch sym.Choose("outcome", 4) {
		case 0:
			prog.status = nil
		case 1:
			prog.status = scoreresult.ErrReverted
		case 2:
			prog.status = scoreresult.ErrOutOfStep
		default:
			prog.status = scoreresult.InvalidParameterError.New("invalid call")
		}
		th.chandler = prog
	}
	wcs := ctx.GetSnapshot()
	rct, err := th.Execute(ctx, wcs, false)
	sym.Assert(err == nil, "execution produces a result (no system error)")
	if err != nil {
		return
	}
	stepUsed, price := rct.StepUsed(), rct.StepPrice()
	fee := new(big.Int).Mul(stepUsed, price)
	success := rct.Status() == module.StatusSuccess
	limit := stepLimit
	if limit.Cmp(ctx.invokeLimit) > 0 {
		limit = ctx.invokeLimit
	}

	// ---- C15: fees and transfers conserve ICX ----
	charged := new(big.Int).Sub(initial[0], ctx.accts[0].bal)
	want := new(big.Int).Set(fee)
	if success {
		if !self {
			want.Add(want, value) // a transfer to oneself moves nothing
		}
		if prog != nil && prog.taken != nil {
			want.Add(want, prog.taken) // what the called program spent on the sender's behalf
		}
	}
	sym.Assert(charged.Cmp(want) == 0, "the sender is charged exactly the reported fee (steps used x step price) plus, on success, the value")
	if ctx.rev&module.LegacyFeeCharge == 0 || stepUsed.Sign() != 0 {
		sym.Assert(stepUsed.Cmp(big.NewInt(vhC15DefaultStepCost)) >= 0, "steps used are at least the minimum charge")
	}
	sym.Assert(stepUsed.Cmp(limit) <= 0 || stepUsed.Cmp(big.NewInt(vhC15DefaultStepCost)) == 0, "steps used do not exceed the step limit (except for the minimum charge)")
	total0, total1 := new(big.Int), new(big.Int)
	for i := range initial {
		total0.Add(total0, initial[i])
		total1.Add(total1, ctx.accts[i].bal)
		sym.Assert(ctx.accts[i].bal.Sign() >= 0, "no balance becomes negative")
	}
	sym.Assert(new(big.Int).Add(total1, fee).Cmp(total0) == 0, "the sum of all balances plus the fee charged is unchanged")
	if success {
		sym.Reach("success")
		if real && self {
			sym.Reach("self-transfer")
			sym.Assert(ctx.accts[1].bal.Cmp(initial[1]) == 0 && ctx.accts[2].bal.Cmp(initial[2]) == 0, "a transfer to oneself touches no other account")
		} else if real {
			sym.Assert(new(big.Int).Sub(ctx.accts[1].bal, initial[1]).Cmp(value) == 0, "a successful plain transfer credits exactly the value to the recipient")
			sym.Assert(ctx.accts[2].bal.Cmp(initial[2]) == 0, "a plain transfer touches no other account")
		}
		return
	}
	// ---- C16: a failed transaction changes nothing but the fee ----
	sym.Reach("failure")
	sym.Assert(ctx.accts[1].bal.Cmp(initial[1]) == 0 && ctx.accts[2].bal.Cmp(initial[2]) == 0, "a failed transaction leaves every other account as it was")
	sym.Assert(new(big.Int).Add(ctx.accts[0].bal, fee).Cmp(initial[0]) == 0, "a failed transaction changes only the payer's balance, by the fee")
	n := 0
	for it := rct.EventLogIterator(); it.Has(); it.Next() {
		n++
	}
	sym.Assert(n == 0, "the result of a failed transaction carries no event logs")
	sym.Assert(rct.BTPMessages() == nil || rct.BTPMessages().Len() == 0, "the result of a failed transaction carries no BTP messages")
	if prog != nil && prog.executed {
		sym.Reach("failed-after-mutation") // the program ran (and possibly changed balances) before the failure
	}
	if prog != nil && prog.returnedOK {
		sym.Reach("success-downgraded") // the program succeeded but the fee could not be paid afterwards
	}
}

func VH_C15_self_transfer()  { vhC15RunTo(true, true) }
func VH_C15_plain_transfer() { vhC15Run(true) }
func VH_C15_program()        { vhC15Run(false) }
func VH_C16_plain_transfer() { vhC15Run(true) }
func VH_C16_program()        { vhC15Run(false) }

package transaction

// C16, continued: a call chain torn down as a whole (time-out, execution
// failure or critical error while an inter-call made by an asynchronous
// contract is still on the stack) rolls back every frame of the chain, also
// what the outer frame changed before the inter-call.  The outer contract is
// an asynchronous harness handler (the way Java/Python contracts run: state
// changes, an event, a BTP message, then OnCall); the inner one fails with a
// time-out / execution failure, or never answers (time-out by the timer).

import (
	"math/big"
	"time"

	"github.com/icon-project/goloop/common"
	"github.com/icon-project/goloop/common/codec"
	"github.com/icon-project/goloop/common/errors"
	"github.com/icon-project/goloop/common/log"
	"github.com/icon-project/goloop/module"
	"github.com/icon-project/goloop/service/contract"
	"github.com/icon-project/goloop/service/eeproxy"
	"github.com/icon-project/goloop/service/scoreresult"
	"github.com/icon-project/goloop/service/state"
	"github.com/icon-project/goloop/service/trace"
	"github.com/icon-project/goloop/zzverif/sym"
)

func (c *vhC15Ctx) TransactionTimeout() time.Duration { return 20 * time.Millisecond }

type vhC16Outer struct {
	*contract.CommonHandler
	eeproxy.CallContext // not used by the call context itself
	ctx                 *vhC15Ctx
	inner               contract.ContractHandler
	amount              *big.Int
	ran                 bool
}

func (h *vhC16Outer) ExecuteAsync(cc contract.CallContext) error {
	h.ran = true
	from := cc.GetAccountState(h.ctx.addrs[0].ID())
	third := cc.GetAccountState(h.ctx.addrs[2].ID())
	if from.GetBalance().Cmp(h.amount) >= 0 {
		from.SetBalance(new(big.Int).Sub(from.GetBalance(), h.amount))
		third.SetBalance(new(big.Int).Add(third.GetBalance(), h.amount))
	}
	cc.OnEvent(h.ctx.addrs[1], [][]byte{[]byte("Outer()")}, nil)
	cc.OnBTPMessage(7, []byte{0xb7})
	cc.OnCall(h.inner, nil)
	return nil
}
func (h *vhC16Outer) SendResult(status error, steps *big.Int, result *codec.TypedObj) error {
	return nil
}
func (h *vhC16Outer) Dispose()             {}
func (h *vhC16Outer) EEType() state.EEType { return "" }
func (h *vhC16Outer) Logger() log.Logger   { return h.CommonHandler.Logger() }

type vhC16InnerSync struct {
	*contract.CommonHandler
	ctx    *vhC15Ctx
	status error
}

func (h *vhC16InnerSync) ExecuteSync(cc contract.CallContext) (error, *codec.TypedObj, module.Address) {
	to := cc.GetAccountState(h.ctx.addrs[1].ID())
	to.SetBalance(new(big.Int).Add(to.GetBalance(), big.NewInt(7)))
	return h.status, nil, nil
}

type vhC16InnerHang struct {
	*contract.CommonHandler
	eeproxy.CallContext
	ctx *vhC15Ctx
}

func (h *vhC16InnerHang) ExecuteAsync(cc contract.CallContext) error {
	to := cc.GetAccountState(h.ctx.addrs[1].ID())
	to.SetBalance(new(big.Int).Add(to.GetBalance(), big.NewInt(7)))
	return nil // and never answers: the transaction runs into its time-out
}
func (h *vhC16InnerHang) SendResult(status error, steps *big.Int, result *codec.TypedObj) error {
	return nil
}
func (h *vhC16InnerHang) Dispose()             {}
func (h *vhC16InnerHang) EEType() state.EEType { return "" }
func (h *vhC16InnerHang) Logger() log.Logger   { return h.CommonHandler.Logger() }

func VH_C16_nested_teardown() {
	lg := log.New()
	ctx := &vhC15Ctx{
		stepPrice:   vhC15NonNeg("stepPrice"),
		invokeLimit: vhC15NonNeg("invokeLimit"),
		rev:         module.ExpandErrorCode | module.InputCostingWithJSON,
		tl:          trace.NewLogger(lg, nil),
	}
	for i := 0; i < 3; i++ {
		ctx.addrs = append(ctx.addrs, common.MustNewAddressFromString("hx00000000000000000000000000000000000000f"+string([]byte{'1' + byte(i)})))
		ctx.accts = append(ctx.accts, &vhC15Account{bal: vhC15NonNeg("balance")})
	}
	initial := ctx.GetSnapshot().(*vhC15Snap).bals
	from, to := ctx.addrs[0], ctx.addrs[1]
	value := new(big.Int)
	stepLimit := vhC15NonNeg("stepLimit")
	ch := contract.NewCommonHandler(from, to, value, false, lg)
	var inner contract.ContractHandler
	switch sym.Choose("inner", 3) {
	case 0:
		inner = &vhC16InnerSync{CommonHandler: ch, ctx: ctx, status: scoreresult.ErrTimeout}
	case 1:
		inner = &vhC16InnerSync{CommonHandler: ch, ctx: ctx, status: errors.ExecutionFailError.New("execution environment failed")}
	default:
		inner = &vhC16InnerHang{CommonHandler: ch, ctx: ctx}
		sym.Reach("inner-hangs")
	}
	outer := &vhC16Outer{CommonHandler: ch, ctx: ctx, inner: inner, amount: vhC15NonNeg("movedByOuter")}
	th := &transactionHandler{group: module.TransactionGroupNormal, from: from, to: to, value: value, stepLimit: stepLimit, chandler: outer}
	wcs := ctx.GetSnapshot()
	rct, err := th.Execute(ctx, wcs, false)
	if err != nil {
		// a critical error / execution failure is reported to the block executor, which retries or fails the block
		sym.Reach("system-error")
		for i := range initial {
			sym.Assert(ctx.accts[i].bal.Cmp(initial[i]) == 0, "a transaction ending in a system error leaves every balance as it was")
		}
		return
	}
	sym.Assert(rct.Status() != module.StatusSuccess, "the torn-down transaction is reported as failed")
	fee := new(big.Int).Mul(rct.StepUsed(), rct.StepPrice())
	if outer.ran {
		sym.Reach("outer-ran")
	}
	sym.Assert(ctx.accts[1].bal.Cmp(initial[1]) == 0 && ctx.accts[2].bal.Cmp(initial[2]) == 0, "a failed transaction leaves every other account as it was, whichever frame changed it")
	sym.Assert(new(big.Int).Add(ctx.accts[0].bal, fee).Cmp(initial[0]) == 0, "a failed transaction changes only the payer's balance, by the fee")
	n := 0
	for it := rct.EventLogIterator(); it.Has(); it.Next() {
		n++
	}
	sym.Assert(n == 0, "the result of a failed transaction carries no event logs")
	sym.Assert(rct.BTPMessages() == nil || rct.BTPMessages().Len() == 0, "the result of a failed transaction carries no BTP messages")
}

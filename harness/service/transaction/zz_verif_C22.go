package transaction

// Harness for property C22 (transaction and receipt lists preserve order and
// index).  The lists are tries keyed by the codec encoding of the index; the
// trie iterates in byte-lexicographic key order, so order preservation is
// "key(i) < key(j) for all i < j" plus "the key decodes back to the index".

import (
	"bytes"

	"github.com/icon-project/goloop/common/codec"
	"github.com/icon-project/goloop/common/db"
	"github.com/icon-project/goloop/module"
	"github.com/icon-project/goloop/zzverif/sym"
)

// for every pair of indexes: the index key is strictly order preserving
func VH_C22_key_order() {
	i, j := sym.I64("i"), sym.I64("j")
	sym.Assume(sym.And(i >= 0, i < j))
	ki := intToKey(int(i))
	kj := intToKey(int(j))
	sym.Assert(bytes.Compare(ki, kj) < 0, "key(i) sorts strictly before key(j) for every i < j")
	sym.Assert(!bytes.HasPrefix(kj, ki), "no index key is a prefix of a later one")
}

// for every index: the key decodes back to the index (what the iterator reports)
func VH_C22_key_roundtrip() {
	i := sym.I64("i")
	sym.Assume(i >= 0)
	k := intToKey(int(i))
	var idx uint
	rest, err := codec.BC.UnmarshalFromBytes(k, &idx)
	sym.Assert(err == nil, "an index key decodes")
	sym.Assert(len(rest) == 0, "an index key decodes completely")
	sym.Assert(int(idx) == int(i), "an index key decodes to its index")
	// the receipt list builds its keys with the same expression
	k2, err := codec.BC.MarshalToBytes(uint(i))
	sym.Assert(err == nil && bytes.Equal(k, k2), "transaction and receipt lists use the same key")
}

// ---- whole list over the real trie, small n ----

// the inner transaction of the real *transaction trie object
type vhC22Tx struct {
	Transaction
	id byte
}

func (t *vhC22Tx) Bytes() []byte { return []byte{0xc2, 0x22, t.id} }
func (t *vhC22Tx) ID() []byte    { return []byte{t.id} }

func VH_C22_list() {
	n := sym.Range("n", 1, sym.Param("N", 4))
	if sym.Param("BOUNDARY", 0) == 1 && sym.Bool("boundary") {
		n += 126 // lists that cross the one-byte / two-byte key boundary (127 | 128)
	}
	txs := make([]module.Transaction, n)
	for i := range txs {
		txs[i] = &transaction{&vhC22Tx{id: byte(i)}}
	}
	l := NewTransactionListFromSlice(db.NewMapDB(), txs)
	cnt := 0
	for it := l.Iterator(); it.Has(); it.Next() {
		tx, idx, err := it.Get()
		sym.Assert(err == nil, "iteration succeeds")
		sym.Assert(idx == cnt, "iteration reports the original index, in order")
		sym.Assert(tx == txs[cnt], "iteration returns the items in their original order")
		cnt++
	}
	sym.Assert(cnt == n, "iteration returns every item exactly once")
	probe := sym.Choose("probe", n)
	tx, err := l.Get(probe)
	sym.Assert(err == nil && tx == txs[probe], "lookup by index returns the item at that index")
	_, err = l.Get(n)
	sym.Assert(err != nil, "lookup beyond the size fails")
	sym.Reach("list-done")
}

package transaction

// Support for the C37 harness in package service: builds a real
// *transactionV3 (so that the real PreValidate runs) from given field values,
// with cached id and encoding so that no JSON/hash path is involved.

import (
	"math/big"

	"github.com/icon-project/goloop/common"
	"github.com/icon-project/goloop/module"
)

func VerifNewTxV3(from, to module.Address, value, stepLimit *big.Int, ts int64, id []byte) Transaction {
	tx := &transactionV3{}
	tx.transactionV3Data.From.Set(from)
	tx.transactionV3Data.To.Set(to)
	tx.Value = new(common.HexInt)
	tx.Value.Int.Set(value)
	tx.StepLimit.Int.Set(stepLimit)
	tx.TimeStamp.Value = ts
	tx.txHash = id
	tx.bytes = []byte{0x03, id[0]}
	return tx
}

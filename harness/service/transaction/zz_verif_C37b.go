package transaction

import (
	"math/big"

	"github.com/icon-project/goloop/module"
)

// VerifNewTxV3Sized is VerifNewTxV3 with a chosen size of the encoding.
func VerifNewTxV3Sized(from, to module.Address, value, stepLimit *big.Int, ts int64, id []byte, size int) Transaction {
	tx := VerifNewTxV3(from, to, value, stepLimit, ts, id).(*transactionV3)
	bs := make([]byte, size)
	bs[0], bs[1] = 0x03, id[0]
	tx.bytes = bs
	return tx
}

// VerifTxAmounts returns value and step limit of a transaction built by VerifNewTxV3.
func VerifTxAmounts(t Transaction) (*big.Int, *big.Int) {
	tx := t.(*transactionV3)
	return new(big.Int).Set(&tx.Value.Int), new(big.Int).Set(&tx.StepLimit.Int)
}

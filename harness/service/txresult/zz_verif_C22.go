package txresult

// C22, receipt lists: the real receiptList (built from real receipts over
// the real trie) returns the receipts in their original order when iterated
// and looks each up by its index, for list sizes on both sides of the
// one-byte / multi-byte index key boundary (127 | 128).

import (
	"github.com/icon-project/goloop/common"
	"github.com/icon-project/goloop/common/db"
	"github.com/icon-project/goloop/module"
	"github.com/icon-project/goloop/zzverif/sym"
)

func VH_C22_receipt_list() {
	n := sym.Range("n", 1, sym.Param("N", 4))
	if sym.Param("BOUNDARY", 0) == 1 && sym.Bool("boundary") {
		n += 126
	}
	dbase := db.NewMapDB()
	to := common.MustNewAddressFromString("hx0000000000000000000000000000000000000001")
	rcts := make([]Receipt, n)
	for i := range rcts {
		r := NewReceipt(dbase, module.NoRevision, to)
		r.SetCumulativeStepUsed(common.NewHexInt(int64(i)).Value())
		rcts[i] = r
	}
	l := NewReceiptListFromSlice(dbase, rcts)
	cnt := 0
	for it := l.Iterator(); it.Has(); it.Next() {
		r, err := it.Get()
		sym.Assert(err == nil, "iteration succeeds")
		sym.Assert(r == rcts[cnt], "iteration returns the receipts in their original order")
		cnt++
	}
	sym.Assert(cnt == n, "iteration returns every receipt once")
	probe := sym.Choose("probe", n)
	r, err := l.Get(probe)
	sym.Assert(err == nil && r == rcts[probe], "lookup by index returns the receipt at that index")
	_, err = l.Get(n)
	sym.Assert(err != nil, "lookup beyond the size fails")
	sym.Reach("list-done")
}

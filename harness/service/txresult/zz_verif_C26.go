package txresult

// Harness for property C26 (event log blooms have no false negatives): the
// real LogsBloom code (on the real math/big bit operations over symbolic
// words) with SHA3 uninterpreted, so the three bit positions of every item
// are arbitrary.

import (
	"encoding/binary"

	"github.com/icon-project/goloop/common"
	"github.com/icon-project/goloop/common/crypto"
	"github.com/icon-project/goloop/zzverif/sym"
)

// the bloom input of an indexed value / an address, as addLog hashes it
func vhC26Indexed(i int, b []byte) []byte {
	return append([]byte{byte(i)}, b...)
}

func vhC26Addr(a *common.Address) []byte {
	return append([]byte{0xff}, a.Bytes()...)
}

// bound: the three bit positions of this item lie in the first WORDS 64-bit words
func vhC26Bound(item []byte) {
	if !sym.Symbolic() {
		return // a bound of the symbolic exploration only: natively every position is fine
	}
	h := crypto.SHA3Sum256(item)
	limit := uint16(64 * sym.Param("WORDS", 2))
	for i := 0; i < 3; i++ {
		sym.Assume(binary.BigEndian.Uint16(h[i*2:i*2+2])&(LogsBloomBits-1) < limit)
	}
}

func VH_C26_no_false_negative() {
	nLogs := sym.Param("LOGS", 2)
	merged := NewLogsBloom(nil)
	var singles []*LogsBloom
	for l := 0; l < nLogs; l++ {
		var addr common.Address
		ab := sym.Bytes("addr", 21)
		sym.Assume(ab[0] <= 1)
		copy(addr[:], ab)
		vhC26Bound(vhC26Addr(&addr))
		nIdx := 1 + sym.Choose("indexed", sym.Param("INDEXED", 2))
		var log [][]byte
		for i := 0; i < nIdx; i++ {
			v := sym.Bytes("val", sym.Choose("vlen", 3)) // 0..2 bytes: an empty (non-nil) indexed value counts too
			if len(v) > 0 {
				vhC26Bound(vhC26Indexed(i, v))
			} else {
				sym.Reach("empty-indexed-value") // concrete input: its bit positions are concrete, no bound needed
			}
			log = append(log, v)
		}
		// the receipt's bloom for this log, merged into the block's bloom
		rb := NewLogsBloom(nil)
		rb.AddLog(&addr, log)
		merged.Merge(rb)
		// the single-item blooms a searcher would look for
		sa := NewLogsBloom(nil)
		sa.AddAddressOfLog(&addr)
		singles = append(singles, sa)
		for i, v := range log {
			si := NewLogsBloom(nil)
			si.AddIndexedOfLog(i, v)
			singles = append(singles, si)
		}
		sym.Assert(rb.Contain(sa), "a receipt's bloom reports the emitting address")
	}
	for _, s := range singles {
		sym.Assert(merged.Contain(s), "the merged bloom reports every emitting address and every indexed value at its position")
	}
	sym.Reach("merged")
}

// merging is order independent and only adds bits
func VH_C26_merge_order() {
	a := NewLogsBloom(nil)
	b := NewLogsBloom(nil)
	va := sym.Bytes("va", 1)
	vb := sym.Bytes("vb", 1)
	vhC26Bound(vhC26Indexed(0, va))
	vhC26Bound(vhC26Indexed(1, vb))
	a.AddIndexedOfLog(0, va)
	b.AddIndexedOfLog(1, vb)
	ab := NewLogsBloom(nil)
	ab.Merge(a)
	ab.Merge(b)
	ba := NewLogsBloom(nil)
	ba.Merge(b)
	ba.Merge(a)
	sym.Assert(ab.Equal(ba), "merging blooms does not depend on the order")
	sym.Assert(ab.Contain(a) && ab.Contain(b), "a merged bloom contains both parts")
	empty := NewLogsBloom(nil)
	sym.Assert(ab.Contain(empty) && a.Contain(empty), "every bloom contains the empty bloom")
	// the byte form keeps the bits
	back := NewLogsBloom(ab.Bytes())
	sym.Assert(back.Equal(ab) && back.Contain(a) && back.Contain(b), "the byte form of a bloom keeps every bit")
}

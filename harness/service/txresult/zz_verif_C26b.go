package txresult

// C26, compressed form: a bloom survives compression and decompression (the
// form stored in block headers and receipts) with every bit, also when the
// bloom object is reused - compressed, then given another value (by adding
// logs, merging, SetBytes or decoding into it) and compressed again.
// Bound: the bit positions of the items lie in the first CBITS bits, so the
// LZW stream is a few symbolic bytes long.

import (
	"encoding/binary"

	"github.com/icon-project/goloop/common"
	"github.com/icon-project/goloop/common/codec"
	"github.com/icon-project/goloop/common/crypto"
	"github.com/icon-project/goloop/zzverif/sym"
)

func vhC26SmallBits(item []byte) {
	if !sym.Symbolic() {
		return
	}
	h := crypto.SHA3Sum256(item)
	limit := uint16(sym.Param("CBITS", 16))
	for i := 0; i < 3; i++ {
		sym.Assume(binary.BigEndian.Uint16(h[i*2:i*2+2])&(LogsBloomBits-1) < limit)
	}
}

func VH_C26_compressed() {
	var addr common.Address
	ab := sym.Bytes("addr", 21)
	sym.Assume(ab[0] <= 1)
	copy(addr[:], ab)
	vhC26SmallBits(vhC26Addr(&addr))
	v1 := sym.Bytes("val1", 1)
	vhC26SmallBits(vhC26Indexed(0, v1))
	v2 := sym.Bytes("val2", 1)
	vhC26SmallBits(vhC26Indexed(0, v2))

	lb := NewLogsBloom(nil)
	lb.AddLog(&addr, [][]byte{v1})
	sa := NewLogsBloom(nil)
	sa.AddAddressOfLog(&addr)
	s1 := NewLogsBloom(nil)
	s1.AddIndexedOfLog(0, v1)
	s2 := NewLogsBloom(nil)
	s2.AddIndexedOfLog(0, v2)

	c1 := lb.CompressedBytes()
	back := NewLogsBloomFromCompressed(c1)
	sym.Assert(back.Equal(lb), "decompressing the compressed form gives the same bloom")
	sym.Assert(back.Contain(sa) && back.Contain(s1), "the decompressed bloom still reports the address and the indexed value")

	// the same object gets another value and is compressed again
	other := NewLogsBloom(nil)
	other.AddLog(&addr, [][]byte{v2})
	switch sym.Choose("reuse", 5) {
	case 0:
		lb.AddLog(&addr, [][]byte{v2})
	case 1:
		lb.Merge(other)
	case 2:
		lb.SetBytes(other.Bytes())
		s1 = sa
	case 3:
		bs, err := codec.BC.MarshalToBytes(other)
		sym.Assert(err == nil, "a bloom encodes")
		_, err = codec.BC.UnmarshalFromBytes(bs, lb)
		sym.Assert(err == nil, "a bloom decodes into an existing object")
		s1 = sa
	default:
		lb.SetCompressedBytes(other.CompressedBytes())
		s1 = sa
	}
	c2 := lb.CompressedBytes()
	back2 := NewLogsBloomFromCompressed(c2)
	sym.Assert(back2.Equal(lb), "after the bloom object changed, its compressed form is that of its current value")
	sym.Assert(back2.Contain(sa) && back2.Contain(s2) && back2.Contain(s1), "the decompressed bloom reports every item of the current value")
	sym.Reach("compressed")
}

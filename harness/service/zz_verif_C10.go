package service

// Harness for property C10 (block execution never silently drops a
// transaction).  The real executeTxsSequential / executeTxsConcurrent /
// executionContext run over fake transactions whose handler outcome per
// attempt is symbolic (receipt, ExecutionFail, CriticalRerun, other error).

import (
	"math/big"
	"strconv"
	"sync"

	"github.com/icon-project/goloop/chain/base"
	"github.com/icon-project/goloop/common/errors"
	"github.com/icon-project/goloop/common/log"
	"github.com/icon-project/goloop/module"
	"github.com/icon-project/goloop/service/contract"
	"github.com/icon-project/goloop/service/state"
	"github.com/icon-project/goloop/service/trace"
	"github.com/icon-project/goloop/service/transaction"
	"github.com/icon-project/goloop/service/txresult"
	"github.com/icon-project/goloop/zzverif/sym"
)

type vhC10Receipt struct {
	txresult.Receipt
	tx      int
	attempt int
}

// vhC10WVS mirrors the only part of the real worldVirtualState protocol the
// dispatcher relies on: Realize() returns after every transaction's Commit().
type vhC10WVS struct {
	state.WorldVirtualState
	wg *sync.WaitGroup
}

func (w *vhC10WVS) GetSnapshot() state.WorldSnapshot { return nil }
func (w *vhC10WVS) Reset(state.WorldSnapshot) error  { return nil }
func (w *vhC10WVS) Commit() {
	if w.wg != nil {
		w.wg.Done()
	}
}
func (w *vhC10WVS) Realize() {
	if w.wg != nil {
		w.wg.Wait()
	}
}

type vhC10Ctx struct {
	contract.Context
	tl  *trace.Logger
	wvs *vhC10WVS
}

func (c *vhC10Ctx) SkipTransactionEnabled() bool                 { return false }
func (c *vhC10Ctx) SetTransactionInfo(ti *state.TransactionInfo) {}
func (c *vhC10Ctx) GetSnapshot() state.WorldSnapshot             { return nil }
func (c *vhC10Ctx) Reset(s state.WorldSnapshot) error            { return nil }
func (c *vhC10Ctx) UpdateSystemInfo()                            {}
func (c *vhC10Ctx) Treasury() module.Address                     { return nil }
func (c *vhC10Ctx) Revision() module.Revision                    { return 0 }
func (c *vhC10Ctx) GetTraceLogger(p module.ExecutionPhase) *trace.Logger {
	return c.tl
}
func (c *vhC10Ctx) WorldVirtualState() state.WorldVirtualState { return c.wvs }

type vhC10Handler struct {
	tx *vhC10Tx
}

// the world context handed to the real contract.NewContext by the concurrent executor
type vhC10WC struct {
	state.WorldContext
	wvs *vhC10WVS
}

func (w *vhC10WC) WorldVirtualState() state.WorldVirtualState   { return w.wvs }
func (w *vhC10WC) SetTransactionInfo(ti *state.TransactionInfo) {}
func (w *vhC10WC) UpdateSystemInfo()                            {}

func (h *vhC10Handler) Prepare(ctx contract.Context) (state.WorldContext, error) {
	h.tx.wg.Add(1)
	return &vhC10WC{wvs: &vhC10WVS{wg: h.tx.wg}}, nil
}
func (h *vhC10Handler) Dispose() {}
func (h *vhC10Handler) Execute(ctx contract.Context, wcs state.WorldSnapshot, estimate bool) (txresult.Receipt, error) {
	t := h.tx
	a := t.attempts
	t.attempts++
	switch sym.Choose("outcome_tx"+strconv.Itoa(t.idx), 4) {
	case 0:
		r := &vhC10Receipt{tx: t.idx, attempt: a}
		t.last = r
		return r, nil
	case 1:
		t.retryable++
		return nil, errors.ExecutionFailError.New("execution fail")
	case 2:
		t.retryable++
		return nil, errors.CriticalRerunError.New("rerun")
	default:
		t.fatal = true
		return nil, errors.InvalidStateError.New("other failure")
	}
}

type vhC10Tx struct {
	transaction.Transaction
	idx       int
	attempts  int
	retryable int
	fatal     bool
	hookFails bool
	last      *vhC10Receipt
	wg        *sync.WaitGroup
}

func (t *vhC10Tx) GetHandler(cm contract.ContractManager) (transaction.Handler, error) {
	return &vhC10Handler{tx: t}, nil
}
func (t *vhC10Tx) Group() module.TransactionGroup { return module.TransactionGroupNormal }
func (t *vhC10Tx) Timestamp() int64               { return 0 }
func (t *vhC10Tx) Nonce() *big.Int                { return nil }
func (t *vhC10Tx) ID() []byte                     { return []byte{byte(t.idx)} }
func (t *vhC10Tx) From() module.Address           { return nil }
func (t *vhC10Tx) To() module.Address             { return nil }
func (t *vhC10Tx) IsSkippable() bool              { return false }

type vhC10List struct {
	module.TransactionList
	txs []*vhC10Tx
}
type vhC10Iter struct {
	l *vhC10List
	i int
}

func (l *vhC10List) Iterator() module.TransactionIterator { return &vhC10Iter{l: l} }
func (it *vhC10Iter) Has() bool                           { return it.i < len(it.l.txs) }
func (it *vhC10Iter) Next() error                         { it.i++; return nil }
func (it *vhC10Iter) Get() (module.Transaction, int, error) {
	return it.l.txs[it.i], it.i, nil
}

type vhC10Platform struct {
	base.Platform
	l *vhC10List
}

// the platform's end-of-transaction hook may fail (non-retryably) for a
// transaction whose handler succeeded
func (p *vhC10Platform) OnTransactionEnd(wc state.WorldContext, logger log.Logger, rct txresult.Receipt) error {
	if r, ok := rct.(*vhC10Receipt); ok && p.l != nil {
		tx := p.l.txs[r.tx]
		if tx.hookFails {
			tx.fatal = true
			return errors.InvalidStateError.New("end-of-transaction hook failed")
		}
	}
	return nil
}

func vhC10Setup(n int) (*transition, *vhC10Ctx, *vhC10List, []txresult.Receipt) {
	lg := log.New()
	plt := &vhC10Platform{}
	t := &transition{transitionContext: &transitionContext{log: lg, plt: plt}}
	ctx := &vhC10Ctx{tl: trace.NewLogger(lg, nil), wvs: &vhC10WVS{}}
	l := &vhC10List{}
	wg := new(sync.WaitGroup)
	for i := 0; i < n; i++ {
		l.txs = append(l.txs, &vhC10Tx{idx: i, wg: wg, hookFails: sym.Bool("hook_fails_" + string([]byte{'0' + byte(i)}))})
	}
	plt.l = l
	return t, ctx, l, make([]txresult.Receipt, n)
}

func vhC10Check(mode string, err error, l *vhC10List, rcts []txresult.Receipt) {
	failed := false
	for _, tx := range l.txs {
		if tx.fatal || tx.retryable > RetryCount {
			failed = true
		}
	}
	if err == nil {
		sym.Reach("success")
		for i, tx := range l.txs {
			sym.Assert(rcts[i] != nil, mode+": successful block execution has a result for every transaction")
			if rcts[i] != nil {
				r, ok := rcts[i].(*vhC10Receipt)
				sym.Assert(ok && r == tx.last && r.tx == i, mode+": result i is the receipt produced for transaction i")
			}
		}
		sym.Assert(!failed, mode+": a transaction that failed non-retryably is never skipped while the block is reported as executed")
	} else {
		sym.Reach("block-failed")
	}
	if failed {
		sym.Assert(err != nil, mode+": a non-retryable failure fails the whole block execution")
	}
}

func VH_C10_sequential() {
	n := sym.Param("NTX", 2)
	t, ctx, l, rcts := vhC10Setup(n)
	err := t.executeTxsSequential(l, ctx, rcts)
	vhC10Check("sequential", err, l, rcts)
}

func VH_C10_concurrent() {
	n := sym.Param("NTX", 2)
	t, ctx, l, rcts := vhC10Setup(n)
	err := t.executeTxsConcurrent(2, l, ctx, rcts)
	vhC10Check("concurrent", err, l, rcts)
}

// the error latch: after any sequence of reports (any interleaving of the
// mutex-protected sections is such a sequence) Error() != nil iff some report was non-nil
func VH_C10_latch() {
	ec := newExecutionContext(1)
	k := sym.Range("k", 1, sym.Param("REPORTS", 4))
	any := false
	e1 := errors.InvalidStateError.New("e1")
	e2 := errors.CriticalUnknownError.New("e2")
	for i := 0; i < k; i++ {
		switch sym.Choose("report", 3) {
		case 0:
			ec.Report(nil)
		case 1:
			ec.Report(e1)
			any = true
		default:
			ec.Report(e2)
			any = true
		}
		if any {
			sym.Assert(ec.Error() != nil, "latch: a reported error is remembered")
		} else {
			sym.Assert(ec.Error() == nil, "latch: no error without a report")
		}
	}
}

package service

// Harness for property C11, window arithmetic: a transaction is accepted only
// if its timestamp lies in (block time - threshold, block time + threshold].

import (
	"github.com/icon-project/goloop/service/transaction"
	"github.com/icon-project/goloop/zzverif/sym"
)

type vhC11WTx struct {
	transaction.Transaction
	ts int64
}

func (t *vhC11WTx) Timestamp() int64 { return t.ts }

func VH_C11_window() {
	bts := sym.I64("bts")
	th := sym.I64("th")
	ts := sym.I64("ts")
	sym.Assume(sym.And(th >= 0, th <= 1<<40, bts >= -(1<<62), bts <= 1<<62))
	r := NewTimestampRange(bts, th)
	err := r.CheckTx(&vhC11WTx{ts: ts})
	in := sym.And(bts-th < ts, ts <= bts+th)
	if err == nil {
		sym.Reach("accepted")
	} else {
		sym.Reach("rejected")
	}
	sym.Assert((err == nil) == in, "accepted exactly when bts-th < ts <= bts+th")
	if ts == bts+th {
		sym.Reach("upper-bound")
		sym.Assert((err == nil) == (th > 0), "the upper bound of the window is inclusive")
	}
	if ts == bts-th {
		sym.Reach("lower-bound")
		sym.Assert(err != nil || th == 0 && false, "the lower bound of the window is exclusive")
	}
}

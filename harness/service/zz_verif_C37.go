package service

// Harness for property C37 (proposed transactions are valid for the block
// being proposed): the real TransactionPool.Candidate over the real pool
// list, the real timestamp range and the real transactionV3.PreValidate;
// world context (balances, step price, block time, threshold) and the
// transaction-id manager ("included before?") are harness fakes with
// symbolic contents.  Amounts are unbounded integers.

import (
	"math/big"
	"time"

	"github.com/icon-project/goloop/common"
	"github.com/icon-project/goloop/common/log"
	"github.com/icon-project/goloop/module"
	"github.com/icon-project/goloop/service/state"
	"github.com/icon-project/goloop/service/transaction"
	"github.com/icon-project/goloop/zzverif/sym"
)

type vhC37Account struct {
	state.AccountState
	bal *big.Int
}

func (a *vhC37Account) GetBalance() *big.Int  { return a.bal }
func (a *vhC37Account) SetBalance(v *big.Int) { a.bal = v }
func (a *vhC37Account) IsBlocked() bool       { return false }

func (a *vhC37Account) CanAcceptTx(pc state.PayContext) bool { return true }

type vhC37World struct {
	state.WorldContext
	addrs     []module.Address
	accts     []*vhC37Account
	stepPrice *big.Int
	bts, th   int64
}

func (w *vhC37World) Revision() module.Revision { return module.InputCostingWithJSON }
func (w *vhC37World) StepsFor(t state.StepType, n int) int64 {
	if t == state.StepTypeDefault {
		return int64(n) * 100
	}
	return int64(n)
}
func (w *vhC37World) StepPrice() *big.Int                  { return w.stepPrice }
func (w *vhC37World) BlockTimeStamp() int64                { return w.bts }
func (w *vhC37World) TransactionTimestampThreshold() int64 { return w.th }
func (w *vhC37World) GetAccountState(id []byte) state.AccountState {
	for i, a := range w.addrs {
		if string(a.ID()) == string(id) {
			return w.accts[i]
		}
	}
	panic("harness: unknown account")
}
func (w *vhC37World) clone() *vhC37World {
	c := &vhC37World{addrs: w.addrs, stepPrice: w.stepPrice, bts: w.bts, th: w.th}
	for _, a := range w.accts {
		c.accts = append(c.accts, &vhC37Account{bal: a.bal})
	}
	return c
}

type vhC37Tim struct {
	TXIDManager
	recent map[string]bool
}

func (t *vhC37Tim) HasRecent(g module.TransactionGroup, id []byte, ts int64) (bool, error) {
	return t.recent[string(id)], nil
}
func (t *vhC37Tim) AddDroppedTX(id []byte, ts int64) {}

type vhC37Monitor struct{}

func (vhC37Monitor) OnDropTx(n int, user bool)                         {}
func (vhC37Monitor) OnAddTx(n int, user bool)                          {}
func (vhC37Monitor) OnRemoveTx(n int, user bool)                       {}
func (vhC37Monitor) OnCommit(id []byte, ts time.Time, d time.Duration) {}

func vhC37NonNeg(name string) *big.Int {
	v := sym.BigZ(name)
	sym.Assume(v.Sign() >= 0)
	return v
}

func VH_C37_candidate() {
	w := &vhC37World{stepPrice: vhC37NonNeg("stepPrice")}
	w.bts = sym.I64("blockTime")
	w.th = sym.I64("threshold")
	sym.Assume(sym.And(w.bts >= 0, w.bts < 1<<61, w.th >= 0, w.th < 1<<40))
	for i := 0; i < 3; i++ {
		w.addrs = append(w.addrs, common.MustNewAddressFromString("hx00000000000000000000000000000000000000a"+string([]byte{'1' + byte(i)})))
		w.accts = append(w.accts, &vhC37Account{bal: vhC37NonNeg("balance")})
	}
	initial := w.clone()
	tim := &vhC37Tim{recent: map[string]bool{}}
	tp := NewTransactionPool(module.TransactionGroupNormal, 10, tim, vhC37Monitor{}, log.New())
	n := sym.Param("POOL", 3)
	var pool []transaction.Transaction
	for i := 0; i < n; i++ {
		from := w.addrs[sym.Choose("from", 2)]
		id := []byte{byte(i + 1), 0x37}
		to := w.addrs[1+sym.Choose("to", 2)] // the recipient may itself be a sender of another transaction
		size := 2 + 2*sym.Choose("size", 2)
		tx := transaction.VerifNewTxV3Sized(from, to, vhC37NonNeg("value"), vhC37NonNeg("stepLimit"), sym.I64("ts"), id, size)
		tim.recent[string(id)] = sym.Bool("included_before")
		sym.Assert(tp.Add(tx, true) == nil, "harness: the pool accepts the transaction")
		pool = append(pool, tx)
	}
	maxCount := sym.Choose("maxCount", n+1)                     // 0 = default
	maxBytes := []int{0, 2, 3, 4, 6}[sym.Choose("maxBytes", 5)] // 0 = default; otherwise a byte budget that some of the pool does not fit
	txs, size := tp.Candidate(w, maxBytes, maxCount)
	if maxBytes > 0 {
		sym.Assert(size <= maxBytes, "the selection fits the byte budget of the block")
		if len(txs) < n {
			sym.Reach("byte-budget-binds")
		}
	}

	if maxCount > 0 {
		sym.Assert(len(txs) <= maxCount, "no more transactions than the block may hold are selected")
	}
	th := w.th
	if th == 0 {
		th = ConfigTXTimestampThresholdDefault
	}
	fresh := initial
	// an independent ledger (not the repository's PreValidate): the sender can pay value + step limit x price
	// out of its balance after the transactions selected before it; the recipient is credited the value
	ledger := map[string]*big.Int{}
	for i, a := range w.addrs {
		ledger[string(a.ID())] = initial.accts[i].bal
	}
	total := 0
	for _, mtx := range txs {
		{
			t := mtx.(transaction.Transaction)
			value, limit := transaction.VerifTxAmounts(t)
			need := new(big.Int).Mul(limit, w.stepPrice)
			need.Add(need, value)
			from, to := string(t.From().ID()), string(t.To().ID())
			sym.Assert(ledger[from].Cmp(need) >= 0, "the sender of a selected transaction can pay value and maximum fee after the transactions selected before it")
			ledger[from] = new(big.Int).Sub(ledger[from], need)
			ledger[to] = new(big.Int).Add(ledger[to], value)
		}
		sym.Reach("selected")
		tx := mtx.(transaction.Transaction)
		ts := tx.Timestamp()
		sym.Assert(sym.And(w.bts-th < ts, ts <= w.bts+th), "a selected transaction is within the block's timestamp window")
		sym.Assert(!tim.recent[string(tx.ID())], "a selected transaction has not been included before")
		sym.Assert(tx.PreValidate(fresh, true) == nil, "a selected transaction passes pre-validation with the cumulative balance effect of those selected before it")
		total += len(tx.Bytes())
		found := false
		for _, p := range pool {
			if p == tx {
				found = true
			}
		}
		sym.Assert(found, "only pool transactions are selected")
	}
	sym.Assert(size == total, "the reported size is the size of the selection")
	for i := range txs {
		for j := i + 1; j < len(txs); j++ {
			sym.Assert(txs[i] != txs[j], "no transaction is selected twice")
		}
	}
	if len(txs) == 0 {
		sym.Reach("none-selected")
	}
}

// Package sym is the harness API of the gosym symbolic executor
// (overlay-only package: it is injected as /repo/zzverif/sym, never written
// into the repository).
//
// Under gosym every function below is intercepted by name: inputs become SMT
// variables, Assume/Assert become solver constraints/obligations, Len/Choose
// fork the path.  The bodies in this file are the *native* semantics used for
// replaying a solver counterexample (or a self-test vector) against the real
// build: inputs are read from the JSON vector named by VERIF_REPLAY.
package sym

import (
	"crypto/sha256"
	"encoding/json"
	"fmt"
	"math/big"
	"os"
	"strconv"
	"strings"
	"sync"
)

var (
	vec    map[string]string
	counts map[string]int
	loaded bool
	// Observed collects Observe() lines of the current run.
	Observed []string
)

// LoadVector (native only) loads a replay vector and resets the name counters.
func LoadVector(path string) error {
	vec = map[string]string{}
	counts = map[string]int{}
	Observed = nil
	loaded = true
	if path == "" {
		return nil
	}
	b, err := os.ReadFile(path)
	if err != nil {
		return err
	}
	return json.Unmarshal(b, &vec)
}

func ensure() {
	if !loaded {
		if err := LoadVector(os.Getenv("VERIF_REPLAY")); err != nil {
			panic("VERIF-VECTOR: " + err.Error())
		}
	}
}

var mu sync.Mutex

func fresh(name string) string {
	mu.Lock()
	defer mu.Unlock()
	ensure()
	k := counts[name]
	counts[name] = k + 1
	if k == 0 {
		return name
	}
	return name + "#" + strconv.Itoa(k)
}

func lookup(name string) uint64 {
	s, ok := vec[name]
	if !ok {
		return 0
	}
	if strings.HasPrefix(s, "-") {
		v, _ := strconv.ParseUint(s[1:], 10, 64)
		return -v
	}
	v, err := strconv.ParseUint(s, 10, 64)
	if err != nil {
		b, ok := new(big.Int).SetString(s, 10)
		if ok {
			return new(big.Int).And(b, new(big.Int).SetUint64(^uint64(0))).Uint64()
		}
	}
	return v
}

func U8(name string) uint8   { return uint8(lookup(fresh(name))) }
func U16(name string) uint16 { return uint16(lookup(fresh(name))) }
func U32(name string) uint32 { return uint32(lookup(fresh(name))) }
func U64(name string) uint64 { return lookup(fresh(name)) }
func I8(name string) int8    { return int8(lookup(fresh(name))) }
func I16(name string) int16  { return int16(lookup(fresh(name))) }
func I32(name string) int32  { return int32(lookup(fresh(name))) }
func I64(name string) int64  { return int64(lookup(fresh(name))) }
func Int(name string) int    { return int(lookup(fresh(name))) }

// I64Z is an arbitrary int64 that gosym represents by an SMT integer (use it
// for values that flow into math/big arithmetic).
func I64Z(name string) int64 { return int64(lookup(fresh(name))) }
func Bool(name string) bool  { return lookup(fresh(name))&1 == 1 }

// Bytes returns n arbitrary bytes (n concrete).
func Bytes(name string, n int) []byte {
	base := fresh(name)
	b := make([]byte, n)
	for i := range b {
		b[i] = uint8(lookup(fresh(fmt.Sprintf("%s[%d]", base, i))))
	}
	return b
}

// String returns an arbitrary string of n bytes (n concrete).
func String(name string, n int) string { return string(Bytes(name, n)) }

// Len forks over 0..max.
func Len(name string, max int) int { return int(lookup(fresh(name))) % (max + 1) }

// Range forks over lo..hi (inclusive).
func Range(name string, lo, hi int) int { return lo + int(lookup(fresh(name)))%(hi-lo+1) }

// Choose forks over 0..k-1.
func Choose(name string, k int) int { return int(lookup(fresh(name))) % k }

// Param is a concrete per-tier bound from the property spec.
func Param(name string, def int) int {
	ensure()
	if s, ok := vec["param:"+name]; ok {
		v, _ := strconv.Atoi(s)
		return v
	}
	return def
}

// Option switches an engine model on or off for the rest of the path (e.g.
// "fnv.real": execute the real hash/fnv code instead of its model).  Natively
// a no-op: the real code always runs.
func Option(name string, on bool) {}

// Symbolic reports whether the harness runs under gosym (symbolic mode).
func Symbolic() bool { return false }

type assumeFailed struct{}

func (assumeFailed) Error() string { return "VERIF-ASSUME-FAILED" }

// Assume constrains the inputs.
func Assume(c bool) {
	if !c {
		panic(assumeFailed{})
	}
}

// AssertFailed is the panic value of a failed Assert in native runs.
type AssertFailed struct{ Msg string }

func (a AssertFailed) Error() string { return "VERIF-ASSERT-FAILED: " + a.Msg }

// Assert states the property.
func Assert(c bool, msg string) {
	if !c {
		panic(AssertFailed{msg})
	}
}

// And / Or / Implies / Iff build a formula without forking the path (plain
// Go && and || are control flow and split the path under gosym).
func And(cs ...bool) bool {
	for _, c := range cs {
		if !c {
			return false
		}
	}
	return true
}

func Or(cs ...bool) bool {
	for _, c := range cs {
		if c {
			return true
		}
	}
	return false
}

func Implies(a, b bool) bool { return !a || b }

func Iff(a, b bool) bool { return a == b }

// Fail is Assert(false, msg).
func Fail(msg string) { panic(AssertFailed{msg}) }

// Reach marks a vacuity label.
func Reach(label string) {}

// Observe records an output for the interpreter/native differential self-test.
func Observe(name string, v interface{}) {
	Observed = append(Observed, name+"="+render(v))
}

func render(v interface{}) string {
	switch x := v.(type) {
	case nil:
		return "nil"
	case bool:
		return fmt.Sprint(x)
	case string:
		return fmt.Sprintf("%q", x)
	case []byte:
		if x == nil {
			return "nil"
		}
		var ps []string
		for _, b := range x {
			ps = append(ps, strconv.Itoa(int(b)))
		}
		return "[" + strings.Join(ps, " ") + "]"
	case int:
		return strconv.FormatUint(uint64(x), 10)
	case int8:
		return strconv.FormatUint(uint64(uint8(x)), 10)
	case int16:
		return strconv.FormatUint(uint64(uint16(x)), 10)
	case int32:
		return strconv.FormatUint(uint64(uint32(x)), 10)
	case int64:
		return strconv.FormatUint(uint64(x), 10)
	case uint:
		return strconv.FormatUint(uint64(x), 10)
	case uint8:
		return strconv.FormatUint(uint64(x), 10)
	case uint16:
		return strconv.FormatUint(uint64(x), 10)
	case uint32:
		return strconv.FormatUint(uint64(x), 10)
	case uint64:
		return strconv.FormatUint(x, 10)
	}
	return fmt.Sprintf("<%T>", v)
}

// UF is an uninterpreted function from byte strings to outLen bytes.
func UF(name string, outLen int, args ...[]byte) []byte {
	h := sha256.New()
	h.Write([]byte(name))
	var lens []string
	var in []byte
	for _, a := range args {
		lens = append(lens, strconv.Itoa(len(a)))
		in = append(in, a...)
	}
	h.Write([]byte(strings.Join(lens, "_")))
	h.Write(in)
	var out []byte
	seed := h.Sum(nil)
	for len(out) < outLen {
		out = append(out, seed...)
		s := sha256.Sum256(seed)
		seed = s[:]
	}
	return out[:outLen]
}

// BigZ is an arbitrary (unbounded) integer.
func BigZ(name string) *big.Int {
	n := fresh(name)
	v := new(big.Int)
	if s, ok := vec[n]; ok {
		v.SetString(s, 10)
	}
	return v
}

// Classify turns a recovered panic value into a replay status line.
func Classify(r interface{}) string {
	switch x := r.(type) {
	case nil:
		return "ok"
	case assumeFailed:
		return "assume"
	case AssertFailed:
		return "assert: " + x.Msg
	case error:
		return "panic: " + x.Error()
	}
	return fmt.Sprintf("panic: %v", r)
}

#!/usr/bin/env python3
"""Print the mutant-seeding prompt for the given property ids (given only the property text and a scratch worktree)."""
import json, sys
props = {json.loads(l)['id']: json.loads(l) for l in open('/verif/properties.jsonl')}
ids = sys.argv[1:]
suf = ''
if ids and ids[0].startswith('--suffix='):
    suf = ids[0].split('=',1)[1]; ids = ids[1:]
import os
print("""You are working on scratch git worktrees of the goloop repository (icon-project/goloop: ICON 2.0 blockchain node in Go). There is no network. In every shell call first run: export GOFLAGS=-mod=mod GOPROXY=off GOSUMDB=off GOTOOLCHAIN=local

For EACH property below you have its own worktree. In that worktree produce a small source change (a seeded defect) in non-test Go files that makes the property FALSE while:
 (a) the repository still compiles (go build ./... in the worktree),
 (b) the existing unit tests of every package you touched still pass (go test -vet=off -count=1 ./<pkg>/ ... - actually run them and report the result),
 (c) the defect needs something specific to manifest - a particular interleaving, a crash or fault at a particular point, a multi-step sequence of operations, an unusual or boundary input, or two cooperating sites that each look fine alone - NOT something ordinary use or the first simple test would expose at once. Prefer subtle, realistic mistakes (off-by-one at a boundary, a dropped check on a rare path, a stale cache, a wrong variable, a missing reset) in the code the property is about.
Also write a demonstration: a new Go test file named zz_demo_test.go placed in the relevant package that FAILS with your change and PASSES on the unmodified code. Verify both yourself. IMPORTANT: do NOT use `git stash` (the stash is shared between all worktrees of this repository and other people work in sibling worktrees at the same time); instead save your change with `git diff > /tmp/<your worktree name>_change.diff`, remove it with `git apply -R` of that file, and restore it with `git apply`.
Deliver, for the property with id <ID> and worktree <WT>, in the directory <WT>_out/ (create it): patch.diff (the output of `git diff` for the source change only, NOT including the demo test), zz_demo_test.go (a copy of the demo test) with a first-line comment saying which package directory it belongs in, and notes.md (what the change is, what it needs in order to manifest, the exact commands you ran and their outcomes: build, package tests with the change, demo with and without the change).
Rules: work only inside the given worktrees and their _out directories. Do not read or modify anything under /verif, /repo or /root. Leave each worktree with your source change applied. If after a serious attempt you cannot satisfy (a)-(c) for a property, say so in notes.md rather than delivering something that fails the existing tests.
""")
for i in ids:
    p = props[i]
    print("=== Property %s  (worktree /tmp/wt_%s%s, output /tmp/wt_%s%s_out/) ===" % (i, i, suf, i, suf))
    mp = '/verif/seeded/%s/meta.json' % i
    if suf and os.path.exists(mp):
        print("NOTE: someone else already seeded this one for this property - choose a DIFFERENT function / aspect of the property: " + json.load(open(mp))['change'])
    print(json.dumps({k: p[k] for k in p if k in ('id', 'title', 'statement', 'anchors')}, indent=1))
    print()

#!/usr/bin/env python3
"""Regenerate /verif/MANIFEST.json from props/*.json (claimed checks) and
props/not_applicable.json."""
import json, glob, os
V = '/verif'
checks = []
ids = []
for p in sorted(glob.glob(V + '/props/C*.json')):
    s = json.load(open(p))
    if not s.get('claimed', True):
        continue
    i = s['id']
    ids.append(i)
    checks.append({
        "property_id": i,
        "quick_cmd": "/verif/bin/gosym check %s --tier quick" % i,
        "thorough_cmd": "/verif/bin/gosym check %s --tier thorough" % i,
        "evidence_file": "/verif/evidence/%s.json" % i,
        "replay_cmd_template": "/verif/bin/gosym replay {path}",
        "engine": "gosym",
        "level_claimed": {
            "category": "model_checking",
            "text": s.get("level_text", ""),
            "design_ref": "DESIGN.md section 6 (%s)" % i,
        },
        "level_note": s.get("level_note", ""),
        "technique": s.get("technique", "bounded symbolic execution of the real functions (go/ssa of /repo) + SMT (z3): every sym.Assert is discharged by an unsat answer over all inputs within the stated bounds; counterexamples are replayed natively"),
    })
na = json.load(open(V + '/props/not_applicable.json'))
na = [x for x in na if x['property_id'] not in ids]
m = {
    "version": 1,
    "setup_cmd": "cd /verif/engine && GOFLAGS=-mod=mod GOPROXY=off GOSUMDB=off GOTOOLCHAIN=local go build -o /verif/bin/gosym .",
    "hooks": {
        "guard": "verif",
        "enable": "no hooks are compiled into /repo: harness files (package-internal) and the helper package zzverif/sym are injected by overlay (packages.Config.Overlay for the symbolic run, go test -overlay for native replay)",
        "baseline_off_cmd": "cd /repo && go test -mod=mod -vet=off -count=1 -timeout 25m ./...",
        "source_commits": [],
        "add_only": True,
    },
    "engines": [{"name": "gosym", "path": "/verif/engine", "serves_properties": ids,
                 "kind_free_text": "path-forking symbolic executor over go/ssa of /repo's working tree; SMT-LIB2 over a pipe to z3 4.8.12; native replay of counterexamples via go test -overlay"}],
    "checks": checks,
    "notes": "All checks are bounded: the bounds, what lies outside them, the functions encoded and the environment models are in each evidence file and in DESIGN.md. Exit 0 with INCONCLUSIVE lines means some obligation could not be decided (never counted as discharged); exit 1 only for a counterexample reproduced natively against the real build.",
    "not_applicable": na,
}
json.dump(m, open(V + '/MANIFEST.json', 'w'), indent=1)
print("claimed:", ids, "n/a:", [x['property_id'] for x in na])

#!/bin/bash
# run every claimed check (tier = $1, default quick; extra gosym flags in $2) and print a one-line summary each
tier=${1:-quick}
extra=$2
cd /verif
for id in $(python3 -c "import json;print(' '.join(c['property_id'] for c in json.load(open('MANIFEST.json'))['checks']))"); do
  s=$(date +%s)
  out=$(./bin/gosym check $id --tier $tier $extra 2>&1); rc=$?
  e=$(date +%s)
  echo "$id rc=$rc $((e-s))s viol=$(echo "$out" | grep -c '^VIOLATION') inconcl=$(echo "$out" | grep -c '^INCONCLUSIVE') known=$(echo "$out" | grep -c '^KNOWN-FINDING')"
  echo "$out" | grep '^VIOLATION\|^INCONCLUSIVE\|^UNREPRODUCED' | cut -c1-300 | head -5
done

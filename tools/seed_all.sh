#!/bin/bash
# seed_all.sh [ids...]: regression of the seeded changes. Each /verif/seeded/<id>/patch.diff is applied to a
# scratch worktree of /repo (never to /repo itself), the quick check of the property is run against that worktree,
# and the verdict is printed: every seed must give rc=1 with at least one natively reproduced VIOLATION.
wt=/tmp/seedwt_$$; rr=/tmp/seedreplays_$$
git -C /repo worktree add --detach $wt HEAD >/dev/null 2>&1 || { echo "cannot create worktree"; exit 2; }
trap 'git -C /repo worktree remove --force $wt; rm -rf $rr' EXIT
ids="$@"; [ -z "$ids" ] && ids=$(ls /verif/seeded)
miss=0
for id in $ids; do
  ( cd $wt && git apply /verif/seeded/$id/patch.diff ) || { echo "seed=$id patch does not apply"; miss=$((miss+1)); continue; }
  s=$(date +%s)
  out=$(VERIF_REPO_DIR=$wt VERIF_REPLAY_ROOT=$rr /verif/bin/gosym check ${id:0:3} --tier quick --no-evidence 2>&1); rc=$?
  e=$(date +%s)
  v=$(echo "$out" | grep -c '^VIOLATION')
  echo "seed=$id rc=$rc violations=$v $((e-s))s $(echo "$out" | grep -m1 counterexample | sed 's/.*msg=\("[^"]*"\).*/\1/' | cut -c1-140)"
  [ $rc -eq 1 ] && [ $v -gt 0 ] || miss=$((miss+1))
  ( cd $wt && git checkout -- . ); rm -rf $rr
done
echo "missed=$miss"
exit $miss

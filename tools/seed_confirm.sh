#!/bin/bash
# seed_confirm.sh <id> [suffix]: confirm a seeded change delivered in /tmp/wt_<id><suffix> (+ _out) in its scratch worktree:
# builds, existing tests of the touched packages pass, demo fails with the change and passes without.
# On success copies patch.diff + demo into /verif/seeded/<id><suffix>/.
export GOFLAGS=-mod=mod GOPROXY=off GOSUMDB=off GOTOOLCHAIN=local
id=$1; suf=$2
wt=/tmp/wt_$id$suf; out=/tmp/wt_$id${suf}_out
cd $wt || exit 2
demo=$(git status --short | grep 'zz_demo_test.go' | awk '{print $2}' | head -1)
[ -z "$demo" ] && { echo "no demo test in worktree"; exit 2; }
pkg=./$(dirname $demo)
pkgs=$(git diff --name-only | grep '\.go$' | xargs -n1 dirname | sort -u | sed 's|^|./|' | tr '\n' ' ')
echo "demo=$demo pkg=$pkg touched=$pkgs"
go build ./... || { echo "BUILD FAILED"; exit 1; }
mv $demo /tmp/_demo_$id.go
go test -vet=off -count=1 -skip 'Test_network_allowedPeer|Test_network_trustSeeds' $pkgs > /tmp/_t1_$id.log 2>&1; r1=$?
mv /tmp/_demo_$id.go $demo
go test -vet=off -count=1 -run 'Demo|demo|ZZ|Zz' $pkg > /tmp/_t2_$id.log 2>&1; r2=$?
git diff > /tmp/_patch_$id.diff
git apply -R /tmp/_patch_$id.diff
go test -vet=off -count=1 -run 'Demo|demo|ZZ|Zz' $pkg > /tmp/_t3_$id.log 2>&1; r3=$?
git apply /tmp/_patch_$id.diff
echo "existing-tests-with-change rc=$r1 ; demo-with-change rc=$r2 (want !=0) ; demo-without-change rc=$r3 (want 0)"
tail -3 /tmp/_t1_$id.log; grep -m3 -- '--- FAIL' /tmp/_t2_$id.log; tail -2 /tmp/_t3_$id.log
if [ $r1 -eq 0 ] && [ $r2 -ne 0 ] && [ $r3 -eq 0 ]; then
  d=/verif/seeded/$id$suf; mkdir -p $d
  git diff > $d/patch.diff
  cp $demo $d/zz_demo_test.go
  cp $out/notes.md $d/notes.md 2>/dev/null
  echo "$demo" > $d/demo_path.txt
  echo CONFIRMED
else
  echo NOT-CONFIRMED
fi

#!/bin/bash
# seed_run.sh <seed dir name> <property id> [tier]: apply the seeded patch to /repo, run the check, undo.
d=/verif/seeded/$1; id=$2; tier=${3:-quick}
cd /repo && git apply $d/patch.diff || { echo "patch does not apply"; exit 2; }
cd /verif && ./bin/gosym check $id --tier $tier --no-evidence > /tmp/_seed_$1.log 2>&1; rc=$?
cd /repo && git checkout -- . 
echo "seed=$1 property=$id rc=$rc violations=$(grep -c '^VIOLATION' /tmp/_seed_$1.log) inconclusive=$(grep -c '^INCONCLUSIVE' /tmp/_seed_$1.log)"
grep -m3 'counterexample' /tmp/_seed_$1.log | cut -c1-260
